"""Mode code for the C07 harness: registers a switch handler, an event handler and delays the documented way."""
from mpf.core.mode import Mode


class MdMode(Mode):

    def mode_start(self, **kwargs):
        self.fired = getattr(self, "fired", [])
        self.switch_handlers.append(self.machine.switch_controller.add_switch_handler(
            "s_m1", self._switch_hit, state=1, ms=0))
        self.switch_handlers.append(self.machine.switch_controller.add_switch_handler(
            "s_m2", self._switch_hit, state=1, ms=40))
        self.add_mode_event_handler("md_ping", self._ping)
        self.delay.add(80, self._delayed, name="md_delay")

    def _trace(self, what):
        trace = getattr(self.machine, "c07_trace", None)
        if trace is not None:
            trace.append(("md", "code:" + what, self.machine.clock.get_time()))
        self.fired.append((what, self.active, self.machine.clock.get_time()))

    def _switch_hit(self, **kwargs):
        self._trace("switch")
        self.delay.add(30, self._delayed, name="md_after_switch")

    def _ping(self, **kwargs):
        self._trace("ping")

    def _delayed(self, **kwargs):
        self._trace("delay")
