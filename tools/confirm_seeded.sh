#!/bin/bash
# usage: tools/confirm_seeded.sh <dir with patch.diff + demo.py> <out.json>
# Confirms a seeded defect in a scratch worktree of /repo HEAD: demo passes clean, fails with the patch, and the
# repository's test suite has the same failures as the recorded baseline.
d=$(readlink -f "$1"); out=$2
wt=/tmp/wt/conf_$$; tmp=/tmp/conf_tmp_$$
mkdir -p /tmp/wt "$tmp"
git -C /repo worktree add --detach "$wt" HEAD >/dev/null 2>&1 || exit 3
cd "$wt"
run_demo() { (cd "$wt" && PYTHONPATH="$wt" TMPDIR="$tmp" timeout 600 /venv/bin/python "$d/demo.py" >"$tmp/demo.log" 2>&1); echo $?; }
clean_rc=$(run_demo)
applies=yes
git apply "$d/patch.diff" 2>"$tmp/apply.log" || applies=no
patched_rc=NA; suite=NA; newfail=""
if [ $applies = yes ]; then
  rm -f "$tmp"/*.mpf_cache
  patched_rc=$(run_demo)
  tail -5 "$tmp/demo.log" > "$tmp/demo_tail.log"
  rm -f "$tmp"/*.mpf_cache
  PYTHONPATH="$wt" TMPDIR="$tmp" /venv/bin/python -m pytest -q -p no:cacheprovider --timeout=900 --continue-on-collection-errors -n 6 2>&1 | grep -E "^FAILED|passed|failed" > "$tmp/suite.log"
  suite=$(tail -1 "$tmp/suite.log")
  newfail=$(grep "^FAILED" "$tmp/suite.log" | sed 's/ - .*//' | sort | comm -23 - <(sed 's/ - .*//' /verif/baseline_failures.txt | sort) | tr '\n' ';')
fi
cd /
git -C /repo worktree remove --force "$wt"
python3 - "$out" "$clean_rc" "$patched_rc" "$applies" "$suite" "$newfail" <<'PY'
import json,sys
out,clean,patched,applies,suite,newfail=sys.argv[1:7]
json.dump({"demo_rc_clean":clean,"demo_rc_patched":patched,"patch_applies_to_head":applies,"suite_summary":suite,"new_suite_failures":newfail,
           "confirmed": clean=="0" and patched not in ("0","NA") and newfail=="" and "passed" in suite},open(out,"w"),indent=1)
PY
rm -rf "$tmp"
cat "$out"
