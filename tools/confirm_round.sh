#!/bin/bash
# usage: tools/confirm_round.sh /tmp/out2 [ids...]   confirms every <dir>/<id>/<X> that has patch.diff+demo.py and no confirm.json yet
root=$1; shift
for d in $root/*/*; do
  [ -f $d/patch.diff ] && [ -f $d/demo.py ] || continue
  [ -f $d/confirm.json ] && continue
  id=$(basename $(dirname $d))
  if [ $# -gt 0 ]; then case " $* " in *" $id "*) ;; *) continue;; esac; fi
  /verif/tools/confirm_seeded.sh $d $d/confirm.json > $d/confirm.log 2>&1
  echo "$d: $(tr -d '\n' < $d/confirm.json | cut -c1-200)"
done
