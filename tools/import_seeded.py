#!/usr/bin/env python3
"""Copies confirmed sub-agent defects from /tmp/out/<id>/<X>/ into /verif/seeded/<id>_<X>/ with a meta.json."""
import json
import os
import shutil
import sys

OUTS = [("/tmp/out", ""), ("/tmp/out2", "2"), ("/tmp/out3", "3"), ("/tmp/out4", "4")]   # (directory, prefix of the change letter): round 1, round 2
DST = os.path.join(os.path.dirname(os.path.dirname(os.path.abspath(__file__))), "seeded")
# neutralised by a genuine-defect repair (the demo passes with the patch applied to the repaired tree): not kept
DROPPED = {("C02", "A"), ("C19", "A")}
# changes labelled with one property which are decided by the check of another one (tools/seeded_matrix.py runs these too)
ALSO_RUN = {("C17", "2B"): ["C09"], ("C07", "3B"): ["C02"], ("C10", "3B"): ["C06"], ("C16", "4B"): ["C02"], ("C17", "4B"): ["C09"]}
# rebased onto the repaired tree: the rebased patch is the one to keep
REBASED = {("C11", "B"): "patch_rebased.diff"}
for OUT, PREFIX in OUTS:
  if not os.path.isdir(OUT):
    continue
  for pid in sorted(os.listdir(OUT)):
    for x in sorted(os.listdir(os.path.join(OUT, pid))):
        if (pid, PREFIX + x) in DROPPED:
            continue
        d = os.path.join(OUT, pid, x)
        cj = os.path.join(d, "confirm.json")
        if not os.path.isdir(d) or not os.path.exists(cj):
            continue
        conf = json.load(open(cj))
        dst = os.path.join(DST, "%s_%s%s" % (pid, PREFIX, x))
        meta_path = os.path.join(dst, "meta.json")
        old = json.load(open(meta_path)) if os.path.exists(meta_path) else {}
        os.makedirs(dst, exist_ok=True)
        for f in ("patch.diff", "demo.py", "notes.md"):
            if f == "patch.diff" and old.get("rebased"):
                continue        # the kept patch was rebased onto a repaired tree by hand (see meta.json "rebased")
            if os.path.exists(os.path.join(d, f)):
                shutil.copy(os.path.join(d, f), os.path.join(dst, f))
        if (pid, PREFIX + x) in REBASED and os.path.exists(os.path.join(d, REBASED[(pid, PREFIX + x)])):
            shutil.copy(os.path.join(d, REBASED[(pid, PREFIX + x)]), os.path.join(dst, "patch.diff"))
        notes = open(os.path.join(d, "notes.md")).read() if os.path.exists(os.path.join(d, "notes.md")) else ""
        meta = {
            "property": pid,
            "origin": "independent sub-agent given only the property text and a scratch worktree",
            "needs_to_manifest": old.get("needs_to_manifest") or notes[:1500],
            "confirmation": {
                "what_i_ran": "tools/confirm_seeded.sh: demo.py on a clean scratch worktree of /repo HEAD (expect exit 0), "
                              "git apply patch.diff, demo.py again (expect non-zero), then the full repository test suite "
                              "(pytest -n 6) compared with baseline_failures.txt",
                "demo_rc_clean": conf.get("demo_rc_clean"), "demo_rc_patched": conf.get("demo_rc_patched"),
                "patch_applies_to_head": conf.get("patch_applies_to_head"), "suite_summary": conf.get("suite_summary"),
                "new_suite_failures": conf.get("new_suite_failures"), "confirmed": conf.get("confirmed"),
            },
            "detected_by": old.get("detected_by", "not yet run"),
        }
        if old.get("rebased"):
            meta["rebased"] = old["rebased"]
        if (pid, PREFIX + x) in ALSO_RUN:
            meta["also_run"] = ALSO_RUN[(pid, PREFIX + x)]
        json.dump(meta, open(meta_path, "w"), indent=1)
        print(pid, x, "confirmed" if conf.get("confirmed") else "NOT CONFIRMED", conf.get("demo_rc_clean"), conf.get("demo_rc_patched"), conf.get("new_suite_failures"))
