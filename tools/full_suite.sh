#!/bin/bash
# Runs the repository's full test suite on /repo's working tree (guard off) and prints failures that are not in
# baseline_failures.txt (expected output: "NEW FAILURES: none").
tmp=$(mktemp -d /tmp/fullsuite.XXXX)
cd /repo && TMPDIR=$tmp /venv/bin/python -m pytest -q -p no:cacheprovider --timeout=900 --continue-on-collection-errors -n 10 2>&1 | grep -E "^FAILED|passed|failed" > $tmp/suite.log
tail -1 $tmp/suite.log
new=$(grep "^FAILED" $tmp/suite.log | sed 's/ - .*//' | sort | comm -23 - <(sed 's/ - .*//' /verif/baseline_failures.txt | sort))
echo "NEW FAILURES: ${new:-none}"
rm -rf $tmp
