#!/usr/bin/env python3
"""Regenerates MANIFEST.json from the table below (kept here so the manifest is always valid)."""
import json
import os

HERE = os.path.dirname(os.path.dirname(os.path.abspath(__file__)))
PY = "/venv/bin/python"

# id -> (level, technique, level text, level note, design ref)
CHECKS = {}
NOT_YET = {}


def chk(pid, level, technique, text, note, ref):
    CHECKS[pid] = (level, technique, text, note, ref)


exec(open(os.path.join(HERE, "tools", "manifest_table.py")).read())

props = [json.loads(l) for l in open(os.path.join(HERE, "properties.jsonl"))]
checks = []
na = []
for p in props:
    pid = p["id"]
    if pid in CHECKS:
        level, technique, text, note, ref = CHECKS[pid]
        checks.append({
            "property_id": pid,
            "quick_cmd": "%s run.py %s --tier quick" % (PY, pid),
            "thorough_cmd": "%s run.py %s --tier thorough" % (PY, pid),
            "evidence_file": "evidence/%s.json" % pid,
            "replay_cmd_template": "%s run.py %s --replay {path}" % (PY, pid),
            "engine": "hypothesis-engine",
            "level_claimed": {"category": level, "text": text, "design_ref": ref},
            "level_note": note,
            "technique": technique,
        })
    else:
        na.append({"property_id": pid, "reason": NOT_YET.get(pid, "check not built yet in this session; see DESIGN.md for the plan")})
m = {
    "version": 1,
    "setup_cmd": "/venv/bin/pip install -q --no-index --find-links /opt/veriftools/wheels hypothesis && "
                 "(/venv/bin/pip install -q --no-index --find-links /opt/veriftools/wheels --target .deps atheris "
                 "|| echo 'atheris unavailable: byte-level campaigns will be skipped')",
    "hooks": {
        "guard": "MPF_VERIF",
        "enable": "no source hooks: checks import /repo's working tree directly (PYTHONPATH is forced to /repo by "
                  "vlib/env.py) and observe MPF through public APIs and per-instance wrappers installed by the harness",
        "baseline_off_cmd": "cd /repo && /venv/bin/python -m pytest -ra -q -p no:cacheprovider --timeout=900 "
                            "--continue-on-collection-errors",
        "source_commits": [],
        "add_only": True,
    },
    "engines": [{
        "name": "hypothesis-engine", "path": "vlib/engine.py",
        "serves_properties": sorted(CHECKS),
        "kind_free_text": "property-based testing: Hypothesis-generated cases/histories against explicit oracles "
                          "(reference models, round-trips, differential and metamorphic relations, history invariants), "
                          "sharded over processes, with shrinking, replay files and a regression corpus",
    }],
    "checks": checks,
    "not_applicable": na,
    "notes": "All checks: run.py <id> --tier quick|thorough [--replay file]. Exit 0 held / 1 VIOLATION / 2 harness error. "
             "Known findings: known_findings.json. Seeded defects used to test sensitivity: seeded/.",
}
with open(os.path.join(HERE, "MANIFEST.json"), "w") as f:
    json.dump(m, f, indent=1)
print("checks:", len(checks), "not_applicable:", len(na))
