#!/usr/bin/env python3
"""Sensitivity matrix: runs every seeded defect under /verif/seeded/<id>_<X>/ against the check of its property.

For each seeded defect a scratch worktree of /repo HEAD is created under /tmp/wt, the demo is run on the clean
worktree (must pass) and with patch.diff applied (must fail), then `run.py <id> --tier quick` is run with
VERIF_REPO pointing at the patched worktree. The verdict (exit code, violation signatures) is written to the
defect's meta.json ("detected_by") and to seeded/MATRIX.json; the worktree is removed. Nothing touches /repo.

usage: tools/seeded_matrix.py [--only C04_A,C05_B] [--jobs 3] [--seed 1]
"""
import argparse
import concurrent.futures
import json
import os
import re
import shutil
import subprocess
import tempfile

VERIF = os.path.dirname(os.path.dirname(os.path.abspath(__file__)))
SEEDED = os.path.join(VERIF, "seeded")


def sh(cmd, **kw):
    return subprocess.run(cmd, stdout=subprocess.PIPE, stderr=subprocess.STDOUT, text=True, **kw)


def one(name, seed):
    d = os.path.join(SEEDED, name)
    pid = name.split("_")[0]
    wt = tempfile.mkdtemp(prefix="mx_%s_" % name, dir="/tmp/wt")
    os.rmdir(wt)
    tmp = tempfile.mkdtemp(prefix="mxtmp_%s_" % name, dir="/tmp")
    res = {"name": name, "property": pid}
    try:
        r = sh(["git", "-C", "/repo", "worktree", "add", "--detach", wt, "HEAD"])
        if r.returncode:
            res["error"] = "worktree: " + r.stdout[-300:]
            return res
        head = sh(["git", "-C", "/repo", "rev-parse", "--short", "HEAD"]).stdout.strip()
        env = dict(os.environ, PYTHONPATH=wt, TMPDIR=tmp)
        demo = os.path.join(d, "demo.py")

        def run_demo():
            for f in os.listdir(tmp):
                if f.endswith(".mpf_cache"):
                    os.unlink(os.path.join(tmp, f))
            try:
                return sh(["/venv/bin/python", demo], cwd=wt, env=env, timeout=900).returncode
            except subprocess.TimeoutExpired:
                return "timeout"
        res["demo_rc_clean"] = run_demo() if os.path.exists(demo) else None
        r = sh(["git", "-C", wt, "apply", os.path.join(d, "patch.diff")])
        res["patch_applies_to_head"] = r.returncode == 0
        if r.returncode:
            res["error"] = "patch does not apply to HEAD: " + r.stdout[-300:]
            return res
        res["demo_rc_patched"] = run_demo() if os.path.exists(demo) else None
        env2 = dict(os.environ, VERIF_REPO=wt, VERIF_SEED=str(seed))
        # the check of the property the change was written against, plus checks named in meta.json "also_run" (a change
        # labelled with one property may be decided by the check of another one)
        mp = os.path.join(d, "meta.json")
        also = (json.load(open(mp)).get("also_run") or []) if os.path.exists(mp) else []
        rc_all, viols, summ = 0, [], []
        for chk in [pid] + [c for c in also if c != pid]:
            r = sh(["/venv/bin/python", "run.py", chk, "--tier", "quick"], cwd=VERIF, env=env2)
            sigs = sorted(set(re.findall(r"subcheck=(\S+) sig=(\S+)", "\n".join(
                l for l in r.stdout.splitlines() if not l.startswith("KNOWN-FINDING")))))
            viols += ["%s:%s/%s" % ((chk,) + s_) if chk != pid else "%s/%s" % s_ for s_ in sigs]
            summ += [l for l in r.stdout.splitlines() if " quick seed=" in l][-1:]
            if r.returncode == 1:
                rc_all = 1
                break
            rc_all = max(rc_all, r.returncode)
        res.update({"check_rc": rc_all, "violations": viols, "head": head, "seed": seed, "summary": summ})
    finally:
        sh(["git", "-C", "/repo", "worktree", "remove", "--force", wt])
        shutil.rmtree(tmp, ignore_errors=True)
        shutil.rmtree(wt, ignore_errors=True)
    return res


def main():
    ap = argparse.ArgumentParser()
    ap.add_argument("--only")
    ap.add_argument("--jobs", type=int, default=3)
    ap.add_argument("--seed", type=int, default=1)
    ap.add_argument("--dry", action="store_true", help="print the verdicts only (do not update meta.json / MATRIX.json)")
    a = ap.parse_args()
    os.makedirs("/tmp/wt", exist_ok=True)
    names = sorted(n for n in os.listdir(SEEDED) if os.path.isdir(os.path.join(SEEDED, n)))
    if a.only:
        names = [n for n in names if n in a.only.split(",")]
    mpath = os.path.join(SEEDED, "MATRIX.json")
    matrix = json.load(open(mpath)) if os.path.exists(mpath) else {}
    with concurrent.futures.ThreadPoolExecutor(a.jobs) as ex:
        for res in ex.map(lambda n: one(n, a.seed), names):
            name = res["name"]
            if a.dry:
                print("%-8s seed=%s check rc=%s %s %s" % (name, a.seed, res.get("check_rc"), ",".join(res.get("violations") or [])[:150],
                                                        res.get("error", "")), flush=True)
                continue
            matrix[name] = res
            mp = os.path.join(SEEDED, name, "meta.json")
            meta = json.load(open(mp)) if os.path.exists(mp) else {"property": res["property"]}
            caught = res.get("check_rc") == 1
            meta["detected_by"] = {
                "check": "run.py %s --tier quick (VERIF_SEED=%s) against a scratch worktree of %s + patch.diff" %
                         (res["property"], res.get("seed"), res.get("head")),
                "exit_code": res.get("check_rc"), "caught": caught, "violations": res.get("violations"),
                "demo_rc_clean": res.get("demo_rc_clean"), "demo_rc_patched": res.get("demo_rc_patched"),
            }
            if "error" in res:
                meta["detected_by"]["error"] = res["error"]
            json.dump(meta, open(mp, "w"), indent=1)
            print("%-8s demo clean=%s patched=%s check rc=%s %s %s" % (
                name, res.get("demo_rc_clean"), res.get("demo_rc_patched"), res.get("check_rc"),
                ",".join(res.get("violations") or [])[:150], res.get("error", "")), flush=True)
            json.dump(matrix, open(mpath, "w"), indent=1, sort_keys=True)


if __name__ == "__main__":
    main()
