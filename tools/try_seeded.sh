#!/bin/bash
# usage: tools/try_seeded.sh <patch.diff> <Cnn> [run.py args...]
# Applies the patch to a scratch worktree of /repo (outside /repo and /verif), runs the check against it with
# VERIF_REPO, prints the verdict and removes the worktree.  Expected result for a seeded defect: exit 1.
set -u
patch=$(readlink -f "$1"); prop=$2; shift 2
wt=/tmp/wt/mut_$$
mkdir -p /tmp/wt
git -C /repo worktree add --detach "$wt" HEAD >/dev/null 2>&1 || { echo "worktree failed"; exit 3; }
if ! git -C "$wt" apply "$patch"; then echo "PATCH DOES NOT APPLY"; git -C /repo worktree remove --force "$wt"; exit 3; fi
cd "$(dirname "$0")/.."
VERIF_REPO="$wt" /venv/bin/python run.py "$prop" "$@"
rc=$?
git -C /repo worktree remove --force "$wt"
echo "seeded-run rc=$rc"
exit $rc
