#!/bin/bash
# usage: tools/seeds.sh Cnn [seeds...]   -- quietness check on the unchanged tree at several seeds
p=$1; shift
for s in ${@:-2 3 4}; do VERIF_SEED=$s /venv/bin/python run.py $p 2>&1 | grep -E "^(VIOLATION|HARNESS|$p )|sig="; done
