#!/bin/bash
# Runs the thorough tier of the given properties (default: all) one after the other and prints one verdict line each.
# Meant for `vp run --timeout 10h -- tools/thorough_sweep.sh`; logs go to sweep_logs/<id>.log (relative to the cwd).
cd "$(dirname "$0")/.."
ids=${@:-C19 C01 C13 C03 C16 C18 C20 C12 C08 C02 C07 C06 C11 C10 C09 C17 C14 C15 C04 C05}
mkdir -p sweep_logs
for id in $ids; do
  start=$(date +%s)
  nice -n 5 /venv/bin/python run.py $id --tier thorough > sweep_logs/$id.log 2>&1
  rc=$?
  echo "$id rc=$rc secs=$(( $(date +%s) - start )) :: $(grep -c '^VIOLATION' sweep_logs/$id.log) violations :: $(grep ' thorough seed=' sweep_logs/$id.log | tail -1)"
done
