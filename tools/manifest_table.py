chk("C19", "exploration", "property-based testing (Hypothesis): round-trip oracle + metamorphic chunking relation",
    "Generated (command, kwargs) over the supported value types must decode(encode(x)) == x with equal types and "
    "encode to one line; generated streams of 1-8 messages with binary payloads must be reassembled identically "
    "for whole, generated-split and single-byte delivery and equal the per-message decoding. Search, not proof.",
    "Identifier-alphabet names; no lone surrogates; pickle client not covered. Trusted: CPython asyncio.StreamReader.",
    "DESIGN.md §4 C19")
