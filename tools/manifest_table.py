chk("C19", "exploration", "property-based testing (Hypothesis): round-trip oracle + metamorphic chunking relation; plus coverage-guided fuzzing (atheris/libFuzzer driving the same generators and oracles)",
    "Generated (command, kwargs) over the supported value types must decode(encode(x)) == x with equal types and "
    "encode to one line; generated streams of 1-8 messages with binary payloads must be reassembled identically "
    "The reassembled messages are also dispatched through BcpInterface.process_bcp_message with and without its debug logging: handlers must receive the same parameters and payloads in the order sent. "
    "for whole, generated-split and single-byte delivery and equal the per-message decoding. Search, not proof.",
    "Identifier-alphabet names; no lone surrogates; pickle client not covered. Trusted: CPython asyncio.StreamReader.",
    "DESIGN.md §4 C19")
chk("C01", "exploration", "property-based testing (Hypothesis): generated handler programs vs. a log oracle that replays the registry (reference model)",
    "Generated handler programs (handlers that post, add, remove and replace handlers, with priorities, conditions, "
    "registered kwargs, relay/boolean results) are executed on the real EventManager from five posting contexts; the "
    "recorded log is checked for exactly-once delivery to required handlers, priority order, kwargs precedence, no "
    "nesting/interleaving, depth-first order and exactly-once, subtree-complete callbacks. The programs also create "
    "wait_for_event/wait_for_any_event futures (resolve exactly once, with the kwargs and event name of the first dispatch "
    "of one of their events that began after the registration) and post_async/post_relay_async futures (resolve exactly "
    "once, not before every handler of the event's subtree has run - observed synchronously at every handler start). "
    "Handlers may be registered with a blocking facility and may return a _min_priority (what shots with block: true do): "
    "the documented blocking rule decides which later handlers must, may or must not run. "
    "Search, not proof.",
    "Handlers never raise; <= 40 posts and <= 30 live registrations per case; queue events are C02's.",
    "DESIGN.md §4 C01, appendix A.1")
chk("C13", "exploration", "property-based testing (Hypothesis): operation histories vs. online reference models on a jittered virtual clock",
    "Generated histories on DelayManager (machine- and mode-owned), clock intervals and a generated timer device run on "
    "a virtual loop whose wake-ups are late by generated amounts; an online reference model validates every callback/"
    "tick/complete event (exactly once, stored kwargs, deadline window [d, d+J], none after remove/replace/mode stop, "
    "check() truthful after every operation and inside callbacks, k-th tick at s+k*I without drift). Mode stops also "
    "happen with the mode_<n>_stopping queue held by a waiting handler while time passes and delays are queried/run. "
    "Search, not proof.",
    "Lateness <= 4 ms per wake-up; coincidences within 1 us are left open; timer notifications other than tick/complete "
    "are not asserted.",
    "DESIGN.md §4 C13")
chk("C04", "exploration", "property-based testing (Hypothesis): generated ball histories against a harness-owned physical world (ground-truth model), invariants at every ball event and at rest",
    "Generated machines (1-5 balls, switch- or entrance-counted trough, optional outhole, coil or mechanical launcher with "
    "1-2 switches, optional switch- or entrance-counted lock, max_eject_attempts, device order), per-device lists of "
    "physical eject outcomes (arrives, arrives late, falls back, too weak) and timed histories of requests and physics "
    "(drains, lock shots, playfield hits, plunges, balls bouncing out, knocks on a full entrance) run on the real ball "
    "devices of the virtual platform; the world turns its ball positions into switch changes and reacts to the coil "
    "pulses it sees. Checked inside a handler of every ball event: no device count below 0 or above capacity, no "
    "negative playfield count, no pulse towards a device whose content plus balls rolling to it fill it; at rest (no "
    "ball moving, 75 s virtual quiet): every count equals the physical content, the playfield count equals the loose "
    "balls and all counts sum to num_balls_known. Sub-check 'calm' repeats this with entries into a device held back "
    "while that device's own eject is unconfirmed; sub-check 'game' runs the same machines with the game mode, a "
    "generated ball save and a generated multiball and only player/physics operations (start button, drains, lock "
    "An optional VUK (1-2 switches) sits between launcher and playfield (trough -> launcher -> VUK -> playfield). "
    "An entrance-counted lock may have two entrance lanes and an ignore window: balls rattle on their lane's switch inside the window and two balls enter on different lanes 0.2 s apart. "
    "Further topology options: a jam switch that must not count as a slot, a trough one slot short of the ball count (the last ball waits in the outhole), a lock that is a VUK to an upper playfield with a transfer switch back (two playfields). "
    "shots, plunges, multiball start/add-a-ball, early save). Search over a documented physical envelope, not proof.",
    "Balls are never created/destroyed, clean switches, >= 400 ms between two balls on one entrance switch, late "
    "arrivals below ball_missing_timeout, entrance-counted devices only eject successfully, no foreign playfield hit "
    "while a failed playfield eject awaits its verdict, counts of a device which reported itself broken are not "
    "compared. Three recorded findings (known_findings.json).",
    "DESIGN.md §4 C04/C05")
chk("C05", "exploration", "property-based testing (Hypothesis): generated request/failure histories against a physical world model, bounded-liveness oracle at rest",
    "Same generated machines and histories as C04. At rest every device must be idle (or have posted _broken after "
    "max_eject_attempts failures), no queued request may have a ball physically upstream of it, requested balls must have "
    "been physically delivered or still be queued, every too-weak or fall-back eject must be followed by another pulse "
    "or an eject_failed event, the machine must come to rest within 60 rounds of 75 s virtual quiet and no task may "
    "crash; under a game (sub-check 'game': ball starts, ball saves, multiball adds) a ball counted as in play must be "
    "physically in play unless no ball is left in the trough/outhole. 'Eventually' is decided as this bounded liveness "
    "A coil launcher may have a launch button (player_controlled_eject_event); a device may only report itself broken after max_eject_attempts coil pulses. "
    "under the virtual clock; true liveness is out of reach.",
    "Same envelope as C04; a mechanical plunger is eventually plunged by the player when MPF waits for it; the history "
    "ends when a device reports itself broken; at most capacity-many request_ball calls per device.",
    "DESIGN.md §4 C04/C05")
chk("C03", "exploration", "property-based testing (Hypothesis): generated switch timelines vs. a sequential reference model of state, deadlines and registry",
    "Generated timelines of raw/logical reports on NO and NC switches (duplicates included), handler registrations with "
    "hold times, duplicate registrations, removals (also from callbacks), queries and integer-ms advances are run on the "
    "real SwitchController; a reference model decides for every callback and switch event whether it was due (exactly "
    "once per real change, at change+hold iff the state was held, mid-interval registrations at the original deadline, "
    "Configured events with a hold time (event|ms, with and without unit) are modelled as implicit timed handlers. "
    "Switches are also muted and unmuted. "
    "never after removal) and checks states and is_active/is_inactive answers. Sub-check window: NO and NC switches with "
    "ignore_window_ms get generated raw reports; their configured and automatic events must follow the documented rule "
    "(events of the change that opens a window, nothing inside it, the events of the other state once at its end if the "
    "switch settled there) and the logical state must mirror the last report. Search, not proof.",
    "timeline: ignore_window_ms = 0; a muted switch follows the hardware, drops pending hold-time entries and calls nobody; an operation exactly at a deadline may land on either side.",
    "DESIGN.md §4 C03")
chk("C16", "exploration", "property-based testing (Hypothesis): differential evaluation against CPython's operators + subscription histories; plus coverage-guided fuzzing (atheris/libFuzzer driving the same generators and oracles)",
    "Generated expression trees over the supported grammar are rendered and evaluated by Raw/Int/Float/Bool/String "
    "templates and by a strict reference evaluator whose leaf operations are executed by CPython (value / default / "
    "unspecified outcomes); generated histories of machine-variable, setting, player-variable and device-attribute "
    "changes check that a subscribed template's future completes after every change of something its taken path read "
    "A setting stored under a differently named machine variable and a monitored device attribute under an alias that starts as None (achievement group selected_member) are part of the subscription histories. "
    "and that re-evaluation equals the reference. Machine and player variables also take str/float (machine: None) values so "
    "that type-incompatible operands occur in subscribed templates. Sub-check devattr: long-lived subscribers of per-player "
    "device attributes (state machine state, persisted counter value/enabled, shot state, achievement state, achievement "
    "group enabled, timer ticks) across drains, next balls, next players and mode stop/start: whenever a fresh evaluation "
    "differs from what the subscriber was last told, its future must have fired. Search, not proof.",
    "Player variables are int/float/str (None posts no player event by design); while a mode is not running its devices' attributes have no value (not audited). Bounded exponents/repeat counts; errors other than TypeError/missing name leave the outcome open; None reports the default.",
    "DESIGN.md §4 C16, appendix A.5")
chk("C18", "exploration", "property-based testing (Hypothesis): generated block configurations and event histories vs. a reference state machine (set of possible states)",
    "A generated counter, accrual or sequence (system-wide or in a mode) is driven by generated histories of hit/step, "
    "enable, disable, reset, restart, add/subtract/jump events and integer-ms gaps around its hit window and timeout; "
    "after every operation the emitted hit/complete/timeout events and (enabled, completed, value) must match one "
    "of the reference model's possible states (two orders are allowed only when an operation coincides with a timer). "
    "Blocks in a mode also see the mode stop and start again (a fresh block has no hit window open and its timeout re-armed). "
    "Search, not proof.",
    "One block per case; hits while the owning mode is stopped are outside the domain.",
    "DESIGN.md §4 C18")
chk("C20", "exploration", "property-based testing (Hypothesis): generated pricing configurations and coin/game histories vs. an exact-arithmetic reference plus model-free invariants",
    "Generated pricing tables (coin values, price, higher tiers, max_credits, expiry times) and histories of coins, "
    "service credits, credit events, start presses, drains, game ends, expiries, free-play toggles and slam tilts run on "
    "the real credits mode with a faked game; after every operation the balance must equal a Fraction-based reference "
    "(greedy tier bonuses per pricing session, cap, expiry), stay within [0, max], a start/add must be accepted iff a "
    "full price is available and deduct exactly it, credits_value must render the balance and the earnings audits must "
    "equal the coins accepted. One machine in eight has no coin or service switch at all (credits only from events). "
    "Search, not proof.",
    "Configs representable in whole credit units only; expiry instants never coincide with operations; presses >= 100 ms apart.",
    "DESIGN.md §4 C20, appendix A.4")
chk("C12", "exploration", "property-based testing (Hypothesis): generated section sources over the enumerated config_spec vs. a validity predicate per validator kind; plus coverage-guided fuzzing (atheris/libFuzzer driving the same generators and oracles)",
    "For every section and sub-section of the loaded config_spec (enumerated; ~1 690 typed keys, coverage of (section, key) "
    "pairs is counted) generated sources mixing valid-looking, boundary, wrong-typed, nested, None/empty, token and "
    "template values - optionally with unknown keys at top level or inside sub-configs - are validated; the call must "
    "either raise or return a config where every spec key is present, every value satisfies its validator's predicate "
    "(type, range, enum, device, container members, recursively through sub-configs), no unknown key was accepted, no "
    "provided key dropped and the spec is unchanged. Time strings: accepted values equal number x unit within 1 ms and the "
    "Unknown keys that are not strings (7:, 1.5:, true:, ~:) and NaN/inf for numeric validators are generated. "
    "documented forms are accepted. Sub-check synthetic: one-key specs for parameterised validator types the shipped spec "
    "does not use (int/float/num and their *_or_token forms with ranges, as single, list and dict values) are registered "
    "the way modes and platforms register theirs and judged by the same predicate. Sub-check players: generated variable_player / event_player / score_queue_player "
    "entries (names with an illegal character at the start or after a legal start, optional {condition}, dict/list/string "
    "form) must be rejected or come back with names of letters, digits, dashes and underscores only, one entry per name, "
    "and legal entries must be accepted. Search, not proof.",
    "Any exception is a rejection; None is allowed everywhere; colours checked for shape only; pow2 returns its input unconverted (repo test).",
    "DESIGN.md §4 C12")
chk("C08", "exploration", "property-based testing (Hypothesis): generated coil limit configurations and request histories vs. an invariant over the recorded platform-driver calls",
    "A generated coil configuration is booted on the virtual platform with every hw_driver method wrapped by a recorder; "
    "generated histories of pulse/enable/timed_enable/disable calls, control events with generated kwargs, coil_player "
    "entries, run-time changes of a template default and time gaps are applied. Every call reaching the driver must be "
    "within max_pulse_ms / max_pulse_power / max_hold_power and holding only where allowed; a request with a negative or "
    "over-limit parameter must raise and reach the driver with nothing; a software-timed pulse and a hold limited by "
    "Sub-check 'integration' boots four flippers, three autofire coils and a kickback with generated coil limits and device-level coil overwrites and checks every pulse/hold setting that reaches the platform as a hardware rule or driver call (enable events, software flips, button presses, ball search). "
    "At the end of an integration history, 3 s after every button and software flip was released and ball search had stopped, no coil may be enabled. "
    "max_hold_duration must be followed by disable at their deadline whatever happens in between - also when the enable "
    "was postponed because the shared power supply was busy (another coil pulsed, enable(max_wait_ms=...)). Search, not proof.",
    "Virtual platform interface (hardware pulse limit 255 ms); max_pulse_power 0 and NaN not generated; serial platforms' encoders not covered.",
    "DESIGN.md §4 C08")
chk("C02", "exploration", "property-based testing (Hypothesis): generated queue/relay/boolean handler programs vs. a log oracle with bounded liveness",
    "Handler programs with waiting handlers (cleared after generated delays, inside the handler, by async coroutines or when "
    "a nested queue event completes), several queue events in flight, relay and boolean events posted with and without "
    "arguments, and modes (with/without use_wait_queue, with in-mode blocks) started from queue events are executed on the "
    "real EventManager; the log must show handlers in priority order, no handler started while an earlier wait is "
    "outstanding, exactly one callback after the last clear by a stated horizon, no open queue task, relay folds and "
    "Sub-check 'ballend' posts the game's ball_ending / mode_game_stopping queue events while a game mode is between starting and started, with generated waits on both (also cleared at the same instant), and requires them to complete; async handlers whose awaited future is cancelled are part of the programs. "
    "Sub-check 'ballend2' plays several balls with two game modes and waits on their stopping events (ball_ending must not complete before every running mode has stopped, on every ball); sub-check 'relayplayer' drives queue_relay_player entries of the machine config and of a mode together against a model of which relayed queue events are held and when they are released. "
    "boolean short-circuit results. Search, not proof.",
    "Liveness is bounded (2 s of virtual time after the program's own last clear); async handlers only on queue-only events.",
    "DESIGN.md §4 C02, appendix A.1")
chk("C07", "exploration", "property-based testing (Hypothesis): generated start/stop request histories vs. a lifecycle automaton, the active-mode list and a before/after registry snapshot",
    "Histories of direct start()/stop() calls (with explicit priorities), start/stop events posted plainly or as queue "
    "events, device activity and time gaps - plus requests issued from handlers of the modes' own lifecycle events and "
    "waiting handlers on starting/stopping - run on four non-game modes with logic blocks, a timer, config players and "
    "mode code. Checked: per-mode event order, accepted requests are acted on, nothing stuck after a stated horizon, "
    "active_modes equals the active modes in priority order after every step, no mode-code callback after 'stopped', and "
    "whenever all modes are stopped the event/switch handler registries, delays, timers, light stacks, coils and config "
    "Sub-check 'game' starts and stops a game mode (shots with persisted enable state, a persisting counter, conditional and priority-suffixed events) inside real games and compares the registries with their state at the start of the ball / before the first game whenever the mode is stopped; the non-game modes also carry conditional and priority-suffixed entries. "
    "A scenario stops a mode while one of its devices has a timer of its own pending (timed pause of a timer, hit window, enable delay). "
    "player instances equal the snapshot taken before any mode ran. Search, not proof.",
    "Non-game modes only; liveness bounded (waits <= 60 ms, 3 s quiet); registries compared by owner/function/priority/kwargs keys.",
    "DESIGN.md §4 C07")
chk("C06", "exploration", "property-based testing (Hypothesis): generated game histories vs. a trace acceptor for the lifecycle grammar with player/ball numbering",
    "Generated histories (start presses, drains through the ball_drain relay with a generated ball save, added balls, "
    "extra-ball awards, end_ball/end_game/slam-tilt requests, requests aimed at turn transitions, several games) run on the "
    "real game mode with faked ball hardware and waiting handlers of generated delays on every lifecycle queue event. The "
    "recorded event sequence must be accepted by the statement's grammar (nesting, turn order, ball numbers <= "
    "balls_per_game, one ball plus awarded extra balls per turn, end only after the last turn or a request), balls in "
    "play stays within [0, balls known], a ball ends iff zero balls or a request (bounded), and after game_ended no game "
    "end_ball requests are also issued between balls (ball_will_end .. player_turn_starting), where they must not end the following ball. "
    "balls_per_game is a template whose value changes between games; tilt warnings, tilts and slam tilts also go through the real tilt mode (2 warnings, 1 s settle time), including a slam tilt on an already tilted ball. "
    "is active and a new one starts. Search, not proof.",
    "Ball hardware faked as in MpfFakeGameTestCase; waits <= 80 ms; tilt requests only while a ball is in progress.",
    "DESIGN.md §4 C06")
chk("C11", "exploration", "property-based testing (Hypothesis): generated multi-player game histories with a metamorphic save/restore and isolation oracle",
    "Generated 1-4 player games (scoring, logic-block progress, shot hits, achievement events, a hand-started second game "
    "mode, timers with timed pauses, drains, extra balls, early game end and new games) run on game modes with persisted "
    "counters/accruals/sequences, a profile shot, an achievement and variable_player entries. Checked: every player's "
    "variables are unchanged from the end of their turn to the start of their next one and after every operation during "
    "other players' turns; persisted state at a player's next ball equals the state before the drain that ended their "
    "previous ball (with the documented achievement mapping); a new game starts from the first game's initial state; "
    "player_<var> events chain (prev_value, change, player_num) and no tracked variable changes without an event. "
    "Sub-check twin (metamorphic): every player - and player 1 of the next game - gets the same generated inputs at the same "
    "offset into their first ball (logic blocks, shots, shot group rotation, achievement group select/rotate/start, timers "
    "with timed pauses, one not running until started); all per-player records must then be equal, whatever the earlier "
    "players did after their record was taken. A restart_on_next_ball mode must run at a player's next ball iff it ran at "
    "the end of their previous one (directed three-ball histories in which the player finishes it). Search, not proof.",
    "Faked ball hardware; timers only checked for isolation; restore sampled 100 ms after ball_started.",
    "DESIGN.md §4 C11")
chk("C10", "exploration", "property-based testing (Hypothesis): generated enable/disable/flip/game histories vs. an invariant over the platform's rule table",
    "Generated histories of explicit enable/disable calls and events, software flips and releases, switch-hit bursts, ball "
    "search runs, game start, drains, end, tilt and service entry run on four flipper wiring variants, three autofire "
    "coils (one with timeout protection) and a kickback on the virtual platform; after every step the installed "
    "switch->coil rules must equal exactly the rules the enabled devices' wiring implies (the platform raises on a "
    "double install), the enabled flag must follow the last explicit request, and whenever no ball is in play (no game, "
    "Two flippers share one button and coil and are handed over by one event (never both enabled); requests are also generated while the autofire timeout protection has paused a device. "
    "In the lifecycle sub-check every pulse/enable reaching a flipper or autofire coil driver while no ball is in play is a violation (a scenario holds an EOS flipper up through the end of the ball, a tilt, service entry or the end of the game). "
    "ball ended, tilt, service) no flipper/autofire rule is installed and no flipper coil is energised (two flippers "
    "have no cabinet button at all and are only flipped by events). Search, not proof.",
    "Rule table of the virtual platform; delayed-pulse autofire rules are not available on it.",
    "DESIGN.md §4 C10")
chk("C09", "exploration", "property-based testing (Hypothesis): generated colour/fade/removal histories vs. a priority-stack model, on four light backends",
    "Generated histories of color/on/off with fades, priorities and keys, key removals with and without fade-out, "
    "clear_stack and gaps landing inside and after fades run on a single-channel, an RGB and an RGBW light whose hardware "
    "channels are the stock virtual light or recording subclasses of the real LightPlatformDirectFade, "
    "LightPlatformSoftwareFade and PlatformBatchLight (+ real PlatformBatchLightSystem), with a generated brightness "
    "setting and colour-correction profile. Checked: get_color() never leaves the hull of the colours involved; 3 s "
    "after the last operation get_color() equals the stack model's top colour and every hardware channel's last command "
    "equals that colour after brightness/colour correction; on virtual/direct backends hardware tracks running fades. "
    "rgbw_white_behavior (duck_rgb, white_only, min_rgb) is generated. "
    "A scenario removes or re-colours an entry while the entry above it is fading out; on the virtual backend a twin light that never had the lower entry must then show the same hardware values (mid-fade tracking is asserted on the RGB light only, white channels are not linear in the colour). "
    "Search, not proof.",
    "Correction maths trusted from the light's own gamma_correct/color_correct; ties of priority accept either entry; tracking not asserted under gamma profiles or within 2 s of a removal.",
    "DESIGN.md §4 C09")
chk("C17", "exploration", "property-based testing (Hypothesis): generated shows and control histories vs. a position/time model on a jittered virtual clock, plus a clean-up oracle",
    "Generated shows (durations as duration:, absolute or relative time:, lights, a token light, a coil, a marker event per "
    "step) are played with generated speed, loops, start step, sync_ms, manual_advance and priority and controlled by "
    "stop/pause/resume/advance/step_back/update at generated instants, through the RunningShow API and through "
    "show_player entries with keys; loop wake-ups are late by generated amounts. Every step marker must come at its "
    "scheduled time T0 + sum(durations)/speed within the lateness bound for every loop (no drift), in the model's step "
    "order; played/looped/completed/stopped events once each at the model's moments; after stopping, no light stack "
    "A machine-wide default_show_sync_ms and shows with an explicit sync_ms of 0 are generated. "
    "show_player entries of a mode with priority 100 are played repeatedly (also across mode stop/start): every instance must run at entry priority + mode priority. "
    "entry, coil or running instance of the show remains. Search, not proof.",
    "Lateness <= 4 ms; requests closer than 2J to a step instant are skipped; one live instance per show so markers can be attributed.",
    "DESIGN.md §4 C17")
chk("C14", "fault_enumeration", "property-based testing (Hypothesis): generated frame/noise/corruption streams with a metamorphic chunking relation and an independent CRC; scripted-board schedules for flow control; plus coverage-guided fuzzing (atheris/libFuzzer driving the same generators and oracles)",
    "OPP (firmware-2 mock rig) and FAST Neuron (mock rig) decoders are fed generated streams of valid switch reports, "
    "full-state reports, ignored messages, line noise and (OPP) frames with corrupted payload/CRC bytes, whole and split "
    "at generated points down to single bytes: decoded messages and final switch states must not depend on the "
    "splitting, corrupted frames (CRC recomputed bitwise, independently) and noise must change nothing and decoding must "
    "resume, and states must equal the last report per board (NO/NC); the same on a second chain (sub-check opp_matrix) "
    "with an inputs-only board, a board that has a switch matrix but no direct inputs, and a board with both. PKONE framing is checked on a bare communicator. "
    "FAST flow control runs a scripted board with generated latencies, unrelated messages and a lost response: write "
    "order, nothing written before the awaited confirmation (known finding), retry on loss (known finding), queue not "
    "blocked. Search over faults, not proof.",
    "PKONE's mock rig does not boot on the pinned tree (baseline failure) so only its framing is covered; ASCII protocols have no integrity field; two FAST flow-control defects are listed as known findings.",
    "DESIGN.md §4 C14")
chk("C15", "fault_enumeration", "property-based testing (Hypothesis): generated save/shutdown histories under an owned thread schedule with injected I/O errors and crash points; save -> reboot -> load round-trip",
    "The real DataManager writer thread runs under a cooperative baton (sleep, dirty-flag wait, deepcopy, open, each file "
    "write, close, os.replace are yield points) so the generator chooses the interleaving of save_all() calls, writer "
    "steps and shutdown, plus one injected OSError, one write failure that is no OSError (UnicodeEncodeError/ValueError from "
    "the text layer half way through the temp file) or one simulated process death at a generated point of a save; "
    "another data manager of the process saves in between, also to paths no file interface exists for (its failure must not block ours). "
    "After a clean shutdown the file must parse to the last saved value; after a crash it must be absent or a complete "
    "saved version, never torn; a save made after a failed write must reach the disk and the writer must not wedge. "
    "Machine variables (generic and config-declared, YAML-lookalike strings, nested values, expiry on both sides of the "
    "reboot) are written through the real YAML interface and reloaded into a machine booted later: equal values and "
    "Variables are set again after generated gaps (every set restarts the expiry). "
    "types, expired/non-persistent ones absent. Search over faults and schedules, not proof.",
    "Crash = process death at call-level points (no fsync/power-loss model); pre-emption only at the listed yield points; pickle interface not covered.",
    "DESIGN.md §4 C15, appendix A.3")
