#!/usr/bin/env python3
"""Regenerates the generated tables of DESIGN.md §9 (between <!-- X:BEGIN --> / <!-- X:END --> markers) from
props/*.py, MANIFEST.json, known_findings.json and seeded/MATRIX.json."""
import glob
import json
import os
import re

VERIF = os.path.dirname(os.path.dirname(os.path.abspath(__file__)))


def replace(s, tag, body):
    b, e = "<!-- %s:BEGIN -->" % tag, "<!-- %s:END -->" % tag
    i, j = s.index(b) + len(b), s.index(e)
    return s[:i] + "\n" + body.rstrip() + "\n" + s[j:]


def asbuilt():
    man = {c["property_id"]: c for c in json.load(open(os.path.join(VERIF, "MANIFEST.json")))["checks"]}
    rows = ["| id | sub-checks: quick / thorough cases | level | deciding technique |", "|---|---|---|---|"]
    for f in sorted(glob.glob(os.path.join(VERIF, "props", "c[0-9][0-9]_*.py"))):
        src = open(f).read()
        pid = re.search(r'PROPERTY = "(C\d\d)"', src).group(1)
        subs = re.findall(r'SubCheck\("(\w+)".*?quick=(\d+), thorough=(\d+)', src, re.S)
        cell = "; ".join("%s %s / %s" % (n, "{:,}".format(int(q)).replace(",", " "),
                                          "{:,}".format(int(t)).replace(",", " ")) for n, q, t in subs)
        m = man.get(pid, {})
        rows.append("| %s | %s | %s | %s |" % (pid, cell, (m.get("level_claimed") or {}).get("category", "?"), m.get("technique", "?")))
    return "\n".join(rows)


def fixes():
    kf = json.load(open(os.path.join(VERIF, "known_findings.json")))
    rows = ["| property | commit | what failed on the unchanged tree |", "|---|---|---|"]
    for f in kf["fixed"]:
        m = re.match(r"fixed: property=(C\d\d) (\w+) (.*)", f, re.S)
        rows.append("| %s | `%s` | %s |" % (m.group(1), m.group(2), m.group(3).replace("|", "\\|").replace("\n", " ")))
    return "\n".join(rows)


def seeded():
    mp = os.path.join(VERIF, "seeded", "MATRIX.json")
    matrix = json.load(open(mp)) if os.path.exists(mp) else {}
    rows = ["| seeded change | file(s) changed | what it does | demo clean / patched | check exit | caught by "
            "(sub-check/signature) |", "|---|---|---|---|---|---|"]
    for d in sorted(glob.glob(os.path.join(VERIF, "seeded", "C*_*"))):
        name = os.path.basename(d)
        patch = open(os.path.join(d, "patch.diff")).read() if os.path.exists(os.path.join(d, "patch.diff")) else ""
        files = sorted(set(re.findall(r"^\+\+\+ b/(\S+)", patch, re.M)))
        notes = open(os.path.join(d, "notes.md")).read() if os.path.exists(os.path.join(d, "notes.md")) else ""
        title = ""
        for line in notes.splitlines():
            if line.startswith("#"):
                title = re.sub(r"^#+\s*", "", line)
                title = re.sub(r"^(C\d\d\s*[/_-]?\s*(seeded defect\s*)?[AB]\s*[—:-]+\s*)", "", title, flags=re.I)
                break
        r = matrix.get(name, {})
        sigs = ", ".join(r.get("violations") or []) or ("—" if r else "not run")
        rows.append("| %s | %s | %s | %s / %s | %s | %s |" % (
            name, "<br>".join("`%s`" % f.replace("mpf/", "") for f in files), title.replace("|", "\\|"),
            r.get("demo_rc_clean", "?"), r.get("demo_rc_patched", "?"), r.get("check_rc", "?"), sigs))
    missed = [n for n, r in matrix.items() if r.get("check_rc") != 1]
    tail = "\n\nCaught: %d of %d seeded changes (quick tier, one seed)." % (len(matrix) - len(missed), len(matrix))
    if missed:
        tail += " Not caught in that run: %s." % ", ".join(sorted(missed))
    return "\n".join(rows) + tail


def main():
    p = os.path.join(VERIF, "DESIGN.md")
    s = open(p).read()
    s = replace(s, "ASBUILT-TABLE", asbuilt())
    s = replace(s, "FIXES-TABLE", fixes())
    s = replace(s, "SEEDED-TABLE", seeded())
    open(p, "w").write(s)
    print("DESIGN.md tables regenerated")


if __name__ == "__main__":
    main()
