"""C16 — Templates evaluate like Python and never act on stale values."""
import math

from hypothesis import strategies as st

from vlib.engine import Result, SubCheck, violation
from vlib.rig import Rig

PROPERTY = "C16"
LEVEL = "exploration"
RULE = ("evaluate: expression trees over the supported grammar (+ - * / // % ** ^, unary - and not, six comparisons, "
        "and/or, conditional, tuples, constant and computed subscripts, machine/settings/player/device attribute "
        "paths) with int/float/bool/str/None leaves, bound and missing names, rendered fully parenthesised; the "
        "reference evaluates the same tree with CPython's own operators and all boolean operands. Non-trivial = depth "
        ">= 3, or operands of different types in one operator, or a boolean operator whose later operand follows a "
        "short-circuit point, or a tuple/subscript/attribute node. subscribe: a template evaluated with subscription "
        "followed by a generated history of variable/setting/player/device changes; non-trivial = a conditional or "
        "boolean node, or >= 2 changes of variables the evaluation read. devattr: 1-3 long-lived subscribers of per-player "
        "device attributes and a history of device events, drains (next ball / next player) and mode stop/start; "
        "non-trivial = the history reaches a next ball or a next player. Distinct = distinct case hash.")
ASSUMPTIONS = [
    "exponents are bounded (|e| <= 6), repeat counts <= 64 and integer results <= 4096 bits: larger cases are excluded "
    "and counted",
    "where the reference raises something other than TypeError in a binary/compare/boolean node or a missing name "
    "(division by zero, index out of range, unary type error, conversion error), any outcome but a non-default value "
    "is accepted",
    "a result of None is reported as the template's default (documented behaviour of evaluate())",
    "only single comparisons (the manager documents chained comparisons as unsupported)",
    "player variables are int/float/str (Player.__setattr__ posts player_<var> for these types only); machine variables "
    "may also be None",
    "devattr: while the mode is not running its devices have no state and the attributes no value: the subscriber is "
    "audited only while the mode runs; the history ends with the game",
]

BIN = ["+", "-", "*", "/", "//", "%", "**", "^"]
CMP = ["==", "!=", "<", ">", "<=", ">="]
PARAMS = ["p0", "p1", "p2", "p3"]
ATTRS = ["machine.mv_int", "machine.mv_float", "machine.mv_str", "machine.mv_none", "machine.mv_missing",
         "settings.set_int", "settings.set_str", "current_player.pv_int", "current_player.pv_str",
         "players[0].pv_int", "players[1].pv_int", "device.counters.c1.value", "machine.mv_zero"]

lit = st.one_of(st.integers(-6, 20), st.integers(-6, 20), st.sampled_from([0.0, 0.5, 1.5, -2.25, 1e3, 3.0]),
                st.booleans(), st.sampled_from(["", "a", "ab", "%d", "x y", "7"]), st.none())
pval = st.one_of(st.integers(-6, 20), st.sampled_from([0.0, 0.5, -1.5, float("inf"), float("nan"), 2.0]),
                 st.booleans(), st.sampled_from(["", "a", "ab", "7"]), st.none())


def _tree():
    leaf = st.one_of(
        lit.map(lambda v: ["lit", v]), lit.map(lambda v: ["lit", v]),
        st.sampled_from(PARAMS).map(lambda n: ["name", n]), st.sampled_from(PARAMS).map(lambda n: ["name", n]),
        st.just(["name", "q_missing"]),
        st.sampled_from(ATTRS).map(lambda a: ["attr", a]),
    )

    def ext(ch):
        return st.one_of(
            st.tuples(st.just("bin"), st.sampled_from(BIN), ch, ch).map(list),
            st.tuples(st.just("bin"), st.sampled_from(BIN), ch, ch).map(list),
            st.tuples(st.just("cmp"), st.sampled_from(CMP), ch, ch).map(list),
            st.tuples(st.just("bool"), st.sampled_from(["and", "or"]), st.lists(ch, min_size=2, max_size=3)).map(list),
            st.tuples(st.just("un"), st.sampled_from(["-", "not"]), ch).map(list),
            st.tuples(st.just("if"), ch, ch, ch).map(list),
            st.tuples(st.just("tup"), st.lists(ch, min_size=0, max_size=3)).map(list),
            st.tuples(st.just("sub"), ch, ch).map(list),
            st.tuples(st.just("sub"), st.tuples(st.just("tup"), st.lists(ch, min_size=1, max_size=3)).map(list),
                      st.integers(-3, 3).map(lambda v: ["lit", v])).map(list),
        )
    return st.recursive(leaf, ext, max_leaves=12)


case_eval = st.fixed_dictionaries({
    "tree": _tree(),
    "params": st.fixed_dictionaries({}, optional={p: pval for p in PARAMS}),
    "kind": st.sampled_from(["raw", "raw", "raw", "int", "float", "bool", "str"]),
})

ENV = {"machine.mv_int": 7, "machine.mv_float": 2.5, "machine.mv_str": "hello", "machine.mv_none": None,
       "machine.mv_missing": None, "machine.mv_zero": 0, "settings.set_int": 1, "settings.set_str": "two",
       "current_player.pv_int": 11, "current_player.pv_str": "pl", "players[0].pv_int": 11, "players[1].pv_int": 22,
       "device.counters.c1.value": 3}


# ---- rendering ------------------------------------------------------------------------------------
def render(t):
    k = t[0]
    if k == "lit":
        v = t[1]
        if isinstance(v, (int, float)) and not isinstance(v, bool) and (v < 0 or str(v).startswith("-")):
            return "(%r)" % (v,)
        return repr(v)
    if k == "name":
        return t[1]
    if k == "attr":
        return t[1]
    if k == "bin":
        return "(%s %s %s)" % (render(t[2]), t[1], render(t[3]))
    if k == "cmp":
        return "(%s %s %s)" % (render(t[2]), t[1], render(t[3]))
    if k == "bool":
        return "(" + (" %s " % t[1]).join(render(x) for x in t[2]) + ")"
    if k == "un":
        return "(%s %s)" % (t[1], render(t[2]))
    if k == "if":
        return "(%s if %s else %s)" % (render(t[2]), render(t[1]), render(t[3]))
    if k == "tup":
        if len(t[1]) == 1:
            return "(%s,)" % render(t[1][0])
        return "(" + ", ".join(render(x) for x in t[1]) + ")"
    if k == "sub":
        return "%s[%s]" % (render(t[1]) if t[1][0] in ("tup", "name", "attr", "sub") or (
            t[1][0] == "lit" and isinstance(t[1][1], str)) else "(%s)" % render(t[1]), render(t[2]))
    raise ValueError(t)


# ---- reference evaluator ---------------------------------------------------------------------------
class Default(Exception):
    """Missing variable, or type-incompatible operands: the template's default is required."""


class Unspecified(Exception):
    """Another error: the statement does not fix the outcome (anything but a wrong value)."""


class TooBig(Exception):
    pass


_BINOPS = {op: eval("lambda a, b: a %s b" % op) for op in BIN + CMP}     # pylint: disable=eval-used


def _guard(op, a, b):
    if op == "**":
        if isinstance(b, (int, float)) and not isinstance(b, bool) and (b != b or abs(b) > 6):
            raise TooBig()
        if isinstance(a, int) and not isinstance(a, bool) and abs(a) > 10 ** 40:
            raise TooBig()
    if op == "*":
        for x, y in ((a, b), (b, a)):
            if isinstance(x, (str, tuple)) and isinstance(y, int) and y > 64:
                raise TooBig()
        if isinstance(a, int) and isinstance(b, int) and (abs(a) > 2 ** 2048 or abs(b) > 2 ** 2048):
            raise TooBig()
    if op == "%" and isinstance(a, str):
        pass


class Ref:
    def __init__(self, params, env):
        self.params = params
        self.env = env
        self.read = set()
        self.mixed = False
        self.after_short = False
        self.special = False

    def ev(self, t):
        k = t[0]
        if k == "lit":
            return t[1]
        if k == "name":
            if t[1] in self.params:
                return self.params[t[1]]
            raise Default("missing " + t[1])
        if k == "attr":
            self.special = True
            self.read.add(t[1])
            return self.env[t[1]]
        if k in ("bin", "cmp"):
            a = self.ev(t[2])
            b = self.ev(t[3])
            if type(a) is not type(b):
                self.mixed = True
            _guard(t[1], a, b)
            try:
                r = _BINOPS[t[1]](a, b)
            except TypeError:
                raise Default("TypeError in %s" % t[1])
            except Exception as e:   # pylint: disable=broad-except
                raise Unspecified(repr(e))
            if isinstance(r, int) and not isinstance(r, bool) and r.bit_length() > 4096:
                raise TooBig()
            if isinstance(r, (str, tuple)) and len(r) > 4096:
                raise TooBig()
            return r
        if k == "bool":
            vals = [self.ev(x) for x in t[2]]       # all operands are evaluated
            r = vals[0]
            for i, v in enumerate(vals[1:]):
                if (t[1] == "and" and not r) or (t[1] == "or" and r):
                    self.after_short = True
                r = (r and v) if t[1] == "and" else (r or v)
            return r
        if k == "un":
            v = self.ev(t[2])
            try:
                return (not v) if t[1] == "not" else (-v)
            except Exception as e:   # pylint: disable=broad-except
                raise Unspecified(repr(e))
        if k == "if":
            c = self.ev(t[1])
            return self.ev(t[2]) if c else self.ev(t[3])
        if k == "tup":
            self.special = True
            return tuple(self.ev(x) for x in t[1])
        if k == "sub":
            self.special = True
            v = self.ev(t[1])
            i = self.ev(t[2])
            try:
                return v[i]
            except Exception as e:   # pylint: disable=broad-except
                raise Unspecified(repr(e))
        raise ValueError(t)


def depth(t):
    if t[0] in ("lit", "name", "attr"):
        return 1
    subs = []
    for x in t[1:]:
        if isinstance(x, list) and x and isinstance(x[0], str) and x[0] in (
                "lit", "name", "attr", "bin", "cmp", "bool", "un", "if", "tup", "sub"):
            subs.append(depth(x))
        elif isinstance(x, list):
            subs.extend(depth(y) for y in x if isinstance(y, list))
    return 1 + max(subs or [0])


def same(a, b):
    if type(a) is not type(b):
        return False
    if isinstance(a, float):
        return (math.isnan(a) and math.isnan(b)) or a == b
    if isinstance(a, complex):
        return (a == b) or (a != a and b != b)
    if isinstance(a, tuple):
        return len(a) == len(b) and all(same(x, y) for x, y in zip(a, b))
    return a == b


# ---- rig shared by all cases of a worker process (evaluation is read-only) ---------------------------
_RIG = []


def _boot():
    rig = Rig("templates", base="fakegame").start()
    m = rig.machine
    m.variables.set_machine_var("mv_int", 7)
    m.variables.set_machine_var("mv_float", 2.5)
    m.variables.set_machine_var("mv_str", "hello")
    m.variables.set_machine_var("mv_none", None)
    m.variables.set_machine_var("mv_zero", 0)
    m.settings.set_setting_value("set_int", 1)
    m.settings.set_setting_value("set_str", "two")
    rig.case.start_game()
    rig.case.add_player()
    rig.advance(0.1)
    m.game.player_list[0]["pv_int"] = 11
    m.game.player_list[0]["pv_str"] = "pl"
    m.game.player_list[1]["pv_int"] = 22
    m.counters["c1"].value = 3
    rig.advance(0.1)
    return rig


def _rig():
    if not _RIG:
        _RIG.append(_boot())
    return _RIG[0]


DEFAULTS = {"raw": None, "int": 0, "float": 0.0, "bool": False, "str": ""}
CONV = {"raw": lambda v: v, "int": int, "float": float, "bool": bool, "str": str}


def check_eval(case):
    tree, params, kind = case["tree"], case["params"], case["kind"]
    src = render(tree)
    classes = ["kind-" + kind]
    ref = Ref(params, ENV)
    outcome = None
    try:
        val = ref.ev(tree)
        outcome = ("value", val)
    except Default as e:
        outcome = ("default", str(e))
    except Unspecified as e:
        outcome = ("unspecified", str(e))
    except TooBig:
        return Result(None, ["excluded-too-big"], False, excluded="too big")
    except RecursionError:
        return Result(None, ["excluded-too-big"], False, excluded="recursion")
    classes.append("ref-" + outcome[0])
    d = depth(tree)
    nontrivial = d >= 3 or ref.mixed or ref.after_short or ref.special
    if ref.after_short:
        classes.append("operand-after-short-circuit-point")
    if ref.special:
        classes.append("tuple/subscript/attribute")
    if ref.mixed:
        classes.append("mixed-types")
    rig = _rig()
    pm = rig.machine.placeholder_manager
    default = DEFAULTS[kind]
    try:
        builder = {"raw": pm.build_raw_template, "int": pm.build_int_template, "float": pm.build_float_template,
                   "bool": pm.build_bool_template, "str": pm.build_string_template}[kind]
        tpl = builder(src)
    except Exception as e:   # pylint: disable=broad-except
        return Result([violation("template-build-raises:" + type(e).__name__, "building %r raised %r" % (src, e))],
                      classes, nontrivial)
    got_exc = None
    got = None
    try:
        got = tpl.evaluate(dict(params))
    except Exception as e:   # pylint: disable=broad-except
        got_exc = e
    vio = []
    topkind = tree[0]
    if outcome[0] == "value":
        exp = outcome[1]
        if exp is None:
            exp = default
        else:
            try:
                exp = CONV[kind](exp)
            except Exception:   # pylint: disable=broad-except
                outcome = ("unspecified", "conversion")
        if outcome[0] == "value":
            if got_exc is not None:
                vio.append(violation("raises-instead-of-value:%s" % _where(tree, got_exc),
                                     "%s template %r with %r raised %r (cause %r); Python gives %r" % (
                                         kind, src, params, got_exc, got_exc.__cause__, exp)))
            elif not same(got, exp):
                vio.append(violation("wrong-value:%s" % _node_kinds(tree), "%s template %r with %r evaluated to %r, Python "
                                     "gives %r" % (kind, src, params, got, exp)))
    if outcome[0] == "default":
        if got_exc is not None:
            vio.append(violation("raises-instead-of-default", "%s template %r with %r raised %r; %s so the default %r is "
                                 "required" % (kind, src, params, got_exc, outcome[1], default)))
        elif not same(got, default):
            vio.append(violation("value-instead-of-default", "%s template %r with %r evaluated to %r; %s so the default %r "
                                 "is required" % (kind, src, params, got, outcome[1], default)))
    if outcome[0] == "unspecified":
        if got_exc is None and not same(got, default):
            vio.append(violation("value-on-error", "%s template %r with %r evaluated to %r although Python raises %s" % (
                kind, src, params, got, outcome[1])))
    del topkind
    return Result(vio or None, classes, nontrivial)


def _node_kinds(t):
    kinds = set()

    def walk(x):
        if isinstance(x, list) and x and isinstance(x[0], str) and x[0] in ("bin", "cmp", "bool", "un", "if", "tup", "sub", "attr"):
            kinds.add(x[0] + (":" + x[1] if x[0] in ("bin", "cmp", "bool", "un") else ""))
        if isinstance(x, list):
            for y in x[1:] if (x and isinstance(x[0], str)) else x:
                walk(y)
    walk(t)
    # a stable, coarse signature: the smallest set of node kinds is what shrinking converges to
    return ",".join(sorted(kinds))[:80]


def _where(t, exc):
    c = exc.__cause__
    return "%s/%s" % (type(c).__name__ if c is not None else type(exc).__name__, _node_kinds(t))


# ---------------------------------------------------------------------------------------------------
# subscription
VARS = ["machine.mv_a", "machine.mv_b", "settings.set_int", "current_player.pv_a", "device.counters.c1.value",
        "machine.mv_c", "settings.set_alias"]
vleaf = st.sampled_from(VARS).map(lambda a: ["attr", a])
sval = st.integers(0, 4)


def _stree():
    leaf = st.one_of(vleaf, vleaf, st.integers(0, 4).map(lambda v: ["lit", v]))

    def ext(ch):
        return st.one_of(
            st.tuples(st.just("bin"), st.sampled_from(["+", "-", "*"]), ch, ch).map(list),
            st.tuples(st.just("cmp"), st.sampled_from(CMP), ch, ch).map(list),
            st.tuples(st.just("bool"), st.sampled_from(["and", "or"]), st.lists(ch, min_size=2, max_size=3)).map(list),
            st.tuples(st.just("if"), ch, ch, ch).map(list),
            st.tuples(st.just("un"), st.just("not"), ch).map(list),
        )
    return st.recursive(leaf, ext, max_leaves=8)


# machine and player variables also take values of other types (an ordering comparison or arithmetic with them is a
# type error -> the template's default; the subscription must survive that)
FREE_VARS = [v for v in VARS if v.startswith("machine.mv_") or v.startswith("current_player.")]
# (player variables are int/float/str: Player.__setattr__ posts player_<var> for these types only; machine variables
# may also be None)
_odd = st.sampled_from(["s", "s", 1.5])
MACHINE_VARS = [v for v in VARS if v.startswith("machine.mv_")]
_change = st.sampled_from([0, 0, 0, 1, 2]).flatmap(lambda k: [st.tuples(st.sampled_from(VARS), sval),
                                                              st.tuples(st.sampled_from(FREE_VARS), _odd),
                                                              st.tuples(st.sampled_from(MACHINE_VARS), st.none())][k])
case_sub = st.fixed_dictionaries({
    "tree": _stree(),
    "init": st.fixed_dictionaries({v: (st.sampled_from([0, 1, 2, 0, 1, 2, "s", 1.5]) if v in FREE_VARS
                                       else st.integers(0, 2)) for v in VARS}),
    "changes": st.lists(_change.map(list), min_size=1, max_size=8),
    "ag": st.lists(st.sampled_from(["ag_select", "ag_rotate", "ag_rotate"]), max_size=3),
})


def _set(rig, var, val):
    m = rig.machine
    if var.startswith("machine."):
        m.variables.set_machine_var(var.split(".", 1)[1], val)
    elif var.startswith("settings."):
        m.settings.set_setting_value(var.split(".", 1)[1], val)
    elif var.startswith("current_player."):
        m.game.player[var.split(".", 1)[1]] = val
    elif var.startswith("device.counters.c1"):
        # through the device's own public operation so the device monitor sees an attribute change
        m.counters["c1"].value = val
    rig.run_ready()


def check_sub(case):
    tree = case["tree"]
    src = render(tree)
    env = dict(case["init"])
    vio = []
    classes = set()
    with Rig("templates", base="fakegame") as rig:
        rig.case.start_game()
        rig.advance(0.1)
        for k, v in env.items():
            _set(rig, k, v)
        rig.advance(0.01)
        pm = rig.machine.placeholder_manager
        tpl = pm.build_raw_template(src)
        nread = 0

        def evaluate():
            ref = Ref({}, env)
            try:
                exp = ("value", ref.ev(tree))
            except Default:
                exp = ("default", None)
            except (Unspecified, TooBig):
                exp = ("unspecified", None)
            val, fut = tpl.evaluate_and_subscribe({})
            return ref, exp, val, fut
        ref, exp, val, fut = evaluate()
        if exp[0] == "value" and not same(val, exp[1]):
            vio.append(violation("subscribe-value-wrong", "evaluate_and_subscribe(%r) gave %r, Python gives %r with %r" % (
                src, val, exp[1], env)))
        for var, newv in case["changes"]:
            if vio:
                break
            old = env[var]
            env[var] = newv
            _set(rig, var, newv)
            rig.advance(0.001)
            if var in ref.read and old != newv:
                nread += 1
                if not fut.done():
                    vio.append(violation("stale-no-notification:" + var.split(".")[0],
                                         "template %r read %s (reference read set %r); %s changed %r -> %r but the "
                                         "subscription future is not done" % (src, var, sorted(ref.read), var, old, newv)))
                    break
            if fut.done():
                ref, exp, val, fut = evaluate()
                if exp[0] == "value" and not same(val, exp[1]):
                    vio.append(violation("subscribe-value-wrong", "re-evaluation of %r gave %r, Python gives %r with %r" % (
                        src, val, exp[1], env)))
            else:
                # nothing it read changed: the value must still be current
                r2 = Ref({}, env)
                try:
                    cur = r2.ev(tree)
                    if exp[0] == "value" and not same(cur, exp[1]):
                        vio.append(violation("stale-value", "template %r: value under %r is %r but the subscriber was last "
                                             "told %r and has not been notified" % (src, env, cur, exp[1])))
                except (Default, Unspecified, TooBig):
                    pass
        if not vio and case.get("ag"):
            # a monitored attribute under an alias that starts as None (achievement group: selected_member)
            ag = rig.machine.achievement_groups["ag"]
            t2 = pm.build_raw_template("device.achievement_groups.ag.selected_member")
            for evname in case["ag"]:
                before = ag._selected_member        # pylint: disable=protected-access
                _, f2 = t2.evaluate_and_subscribe({})
                rig.machine.events.post(evname)
                rig.advance(0.01)
                after = ag._selected_member         # pylint: disable=protected-access
                if after is not before:
                    classes.add("aliased attribute changed" + (" from None" if before is None else ""))
                    if not f2.done():
                        vio.append(violation("stale-no-notification:device-alias", "achievement group ag: selected_member changed "
                                             "%r -> %r after %s but the subscription of 'device.achievement_groups.ag."
                                             "selected_member' was not notified" % (before, after, evname)))
                        break
        exc = rig.exception_summaries()
    if exc:
        vio.append(violation("loop-exception", "exception reached the loop: %s" % exc[:2]))

    def has(t, kinds):
        if isinstance(t, list) and t and isinstance(t[0], str) and t[0] in kinds:
            return True
        return isinstance(t, list) and any(has(x, kinds) for x in t if isinstance(x, list))
    if has(tree, ("if", "bool")):
        classes.add("conditional/boolean")
    if nread >= 2:
        classes.add(">=2-changes-of-read-vars")
    if nread:
        classes.add("read-var-changed")
    return Result(vio or None, sorted(classes) or ["plain"], bool(classes & {"conditional/boolean", ">=2-changes-of-read-vars"}))


# ---- a subscriber that outlives modes and balls: device attributes that come back from the player ----------------
DEV_TEMPLATES = ["device.state_machines.sm.state", "device.counters.cp.value", "device.shots.sh.state_name",
                 "device.achievements.ach1.state", "device.achievement_groups.ag.enabled", "device.timers.tm.ticks",
                 "device.counters.cp.enabled", "device.shots.sh.state",
                 "device.counters.cp.value + (1 if device.state_machines.sm.state == 'done' else 0)"]
case_devattr = st.fixed_dictionaries({
    "players": st.integers(1, 2),
    "templates": st.lists(st.sampled_from(DEV_TEMPLATES), min_size=1, max_size=3, unique=True),
    "ops": st.lists(st.sampled_from(["sm_go", "sm_go", "sm_back", "cp_hit", "hit_sh", "drain", "drain", "advance", "ach1_start",
                                     "ach1_complete", "tg_stop", "tg_start"]),
                    min_size=2, max_size=14),
})


def check_devattr(case):
    """A long-lived subscriber per template: whenever a fresh evaluation differs from what the subscriber was last told,
    its future must be done (it is then told the new value and subscribes again)."""
    vio = []
    classes = set()
    with Rig("templates", base="fakegame") as rig:
        m = rig.machine
        rig.case.start_game()
        rig.advance(0.1)
        for _ in range(case["players"] - 1):
            rig.case.add_player()
        rig.advance(0.1)
        pm = m.placeholder_manager
        subs = []
        for src in case["templates"]:
            tpl = pm.build_raw_template(src, "DEFAULT")
            val, fut = tpl.evaluate_and_subscribe({})
            subs.append({"src": src, "tpl": tpl, "told": val, "fut": fut, "history": [val]})

        def loaded():
            return m.modes["tg"].active and not m.modes["tg"].stopping

        def audit(after):
            for sub in subs:
                fresh = sub["tpl"].evaluate({})
                if sub["fut"].done():
                    sub["told"], sub["fut"] = sub["tpl"].evaluate_and_subscribe({})
                    sub["history"].append(sub["told"])
                    classes.add("notified")
                    fresh = sub["told"]
                if not loaded():
                    continue    # the mode is not running: its devices have no state, the attributes no value (out of domain)
                if not same(fresh, sub["told"]):
                    vio.append(violation("stale-device-attribute:" + sub["src"].split(".")[1],
                                         "after %s a fresh evaluation of %r gives %r but the subscriber was last told %r and its "
                                         "subscription has not fired (values it was told so far: %r)" % (
                                             after, sub["src"], fresh, sub["told"], sub["history"])))
                    return False
            return True
        done_ops = []
        for op in case["ops"]:
            if m.game is None:
                break
            done_ops.append(op)
            if op == "drain":
                ball, num = m.game.player.ball, m.game.player.number
                m.events.post_relay("ball_drain", balls=m.game.balls_in_play)
                m.playfield.balls = 0
                m.playfield.available_balls = 0
                rig.advance(0.5)
                if m.game is not None and (m.game.player.ball, m.game.player.number) != (ball, num):
                    classes.add("next ball" if m.game.player.number == num else "next player")
            elif op == "advance":
                rig.advance(0.2)
            else:
                m.events.post(op)
                rig.advance(0.01)
            if m.game is None:
                break       # the game is over: attributes kept per player have no value any more (outside the domain)
            if not audit("%r" % (done_ops,)):
                break
        if any(len(sub["history"]) >= 4 for sub in subs):
            classes.add(">=3 notifications")
        exc = rig.exception_summaries()
    if exc and not vio:
        vio.append(violation("loop-exception", "exception reached the loop: %s" % exc[:2]))
    return Result(vio or None, sorted(classes) or ["plain"], bool(classes & {"next ball", "next player"}))


SUBCHECKS = [
    SubCheck("evaluate", lambda: case_eval, check_eval, quick=8000, thorough=300000, procs_quick=6,
             fuzz={"quick": 3000, "thorough": 200000, "modules": ['mpf.core.placeholder_manager']}),
    SubCheck("devattr", lambda: case_devattr, check_devattr, quick=600, thorough=10000, procs_quick=4),
    SubCheck("subscribe", lambda: case_sub, check_sub, quick=800, thorough=10000, procs_quick=4),
]
