"""C14 — Serial links: framing, integrity and command flow control."""
import asyncio

from hypothesis import strategies as st

from vlib.engine import Result, SubCheck, violation

PROPERTY = "C14"
LEVEL = "fault_enumeration"
RULE = ("opp / fast / pkone: a generated stream of valid frames (switch reports, full-state reports, ignored messages) "
        "interleaved with generated line noise and, for OPP, frames with corrupted payload/CRC bytes, delivered whole and "
        "split at generated points (down to single bytes); non-trivial = a split inside a frame, or a corrupted/garbage "
        "frame followed by a valid one. flow: a generated queue of confirmed and fire-and-forget FAST commands answered "
        "by a scripted board after generated latencies, with unrelated messages in between; non-trivial = a confirmed "
        "command with another command queued behind it. Distinct = distinct case hash.")
ASSUMPTIONS = [
    "decoders are the ones of the repo's own mock-serial test machines (OPP firmware-2 rig, FAST Neuron rig) booted once "
    "per worker process; the PKONE mock rig fails to boot on the pinned tree (baseline failure), so PKONE is checked for "
    "framing only, on a bare communicator with a recording platform",
    "OPP corruptions keep the two framing bytes (address, command) intact; payload bytes of noise avoid the card "
    "address range so that no false frame start exists",
    "FAST/PKONE carry no integrity field: noise is a run of delimiter-terminated garbage frames with unknown headers; "
    "truncated-but-parsable frames are outside the noise model",
    "flow control: a lost response (retry path) is recorded as a known finding, see known_findings.json",
]

# ---- independent CRC-8 (poly 0x07, init 0xFF), bitwise -----------------------------------------------


def crc8(data):
    crc = 0xFF
    for b in data:
        crc ^= b
        for _ in range(8):
            crc = ((crc << 1) ^ 0x07) & 0xFF if crc & 0x80 else (crc << 1) & 0xFF
    return crc


# ---- rigs (booted once per process) -------------------------------------------------------------------
_RIGS = {}


def _boot(cls_path, method):
    import importlib
    mod, cls = cls_path.rsplit(".", 1)
    klass = getattr(importlib.import_module(mod), cls)
    case = klass(method)
    case.setUp()
    return case


# chain -> (test case that boots it, boards with direct inputs, boards with a switch matrix)
OPP_CHAINS = {
    "repo": ("mpf.tests.test_OPP.TestOPPFirmware2", "testOpp", [0x20, 0x21, 0x23], [0x23]),
    # /verif/vlib/opp_case.py: 0x20 inputs only, 0x21 switch matrix only (no wing with direct inputs), 0x22 both
    "matrix": ("vlib.opp_case.OppMatrixChain", "runTest", [0x20, 0x22], [0x21, 0x22]),
}


def opp_rig(chain="repo"):
    key = "opp" if chain == "repo" else "opp:" + chain
    if key not in _RIGS:
        case = _boot(*OPP_CHAINS[chain][:2])
        plat = case.machine.default_platform
        comm = plat.opp_connection["com1"]
        # stop the poller and the port reader from interfering: the check feeds the decoder directly
        for task in plat._poll_task.values():       # pylint: disable=protected-access
            task.cancel()
        if comm.read_task:
            comm.read_task.cancel()
        case.advance_time_and_run(0.01)
        for sw in case.machine.switches.values():
            sw.mute("verif")        # states are tracked, handlers (game start, devices) stay quiet
        seen = []
        for cmd, fn in list(plat.opp_commands.items()):
            def mk(fn=fn):
                def rec(chain_serial, msg):
                    seen.append(bytes(msg))
                    return fn(chain_serial, msg)
                return rec
            plat.opp_commands[cmd] = mk()
        _RIGS[key] = (case, plat, comm, seen)
    return _RIGS[key]


def fast_rig():
    if "fast" not in _RIGS:
        case = _boot("mpf.tests.test_Fast_Neuron.TestFastNeuron", "test_coils")
        plat = case.machine.hardware_platforms["fast"]
        comm = plat.serial_connections["net"]
        class Sink:
            """Swallows what MPF writes (switch changes make devices send driver commands the mock board does not expect)."""
            def write(self, data):
                pass
        for c in plat.serial_connections.values():
            if c.read_task:
                c.read_task.cancel()        # the check feeds the decoder directly
                c.read_task = None
            c.writer = Sink()
        case.advance_time_and_run(0.01)
        for sw in case.machine.switches.values():
            sw.mute("verif")        # states are tracked, handlers (game start, devices) stay quiet
        seen = []
        for hdr, fn in list(comm.message_processors.items()):
            def mk(hdr=hdr, fn=fn):
                def wrapped(msg):
                    seen.append(hdr + msg)
                    return fn(msg)
                return wrapped
            comm.message_processors[hdr] = mk()
        _RIGS["fast"] = (case, plat, comm, seen)
    return _RIGS["fast"]


# ---- OPP --------------------------------------------------------------------------------------------
OPP_BOARDS = [0x20, 0x21, 0x23]


def opp_frame(board, matrix, state):
    if matrix:
        body = bytes([board, 0x19]) + state.to_bytes(8, "big")
    else:
        body = bytes([board, 0x08]) + state.to_bytes(4, "big")
    return body + bytes([crc8(body)])


opp_item = st.one_of(
    st.tuples(st.just("frame"), st.sampled_from(OPP_BOARDS), st.just(False), st.integers(0, 2 ** 32 - 1)),
    st.tuples(st.just("frame"), st.sampled_from(OPP_BOARDS), st.just(False), st.sampled_from([0, 2 ** 32 - 1, 0x0000FF0C, 0xFFFF00F3])),
    st.tuples(st.just("frame"), st.just(0x23), st.just(True), st.integers(0, 2 ** 64 - 1)),
    st.tuples(st.just("frame"), st.just(0x23), st.just(True), st.sampled_from([0, 2 ** 64 - 1, 1, 1 << 16, 1 << 63])),
    st.tuples(st.just("eom")),
    st.tuples(st.just("corrupt"), st.sampled_from(OPP_BOARDS), st.booleans(), st.integers(0, 2 ** 32 - 1), st.integers(2, 10),
              st.integers(1, 255)),
    st.tuples(st.just("noise"), st.binary(min_size=1, max_size=12)),
).map(list)
case_opp = st.fixed_dictionaries({
    "items": st.lists(opp_item, min_size=1, max_size=25),
    "cuts": st.lists(st.integers(0, 10 ** 6), max_size=16),
    "single_bytes": st.booleans(),
})


def _opp_items(direct, matrix):
    return st.one_of(
        st.tuples(st.just("frame"), st.sampled_from(direct), st.just(False), st.integers(0, 2 ** 32 - 1)),
        st.tuples(st.just("frame"), st.sampled_from(direct), st.just(False), st.sampled_from([0, 2 ** 32 - 1, 0x0000FF0C, 0xFFFF00F3])),
        st.tuples(st.just("frame"), st.sampled_from(matrix), st.just(True), st.integers(0, 2 ** 64 - 1)),
        st.tuples(st.just("frame"), st.sampled_from(matrix), st.just(True), st.sampled_from([0, 2 ** 64 - 1, 1, 1 << 16, 1 << 63, 1 << 25])),
        st.tuples(st.just("eom")),
        st.tuples(st.just("corrupt"), st.sampled_from(direct), st.just(False), st.integers(0, 2 ** 32 - 1), st.integers(2, 10),
                  st.integers(1, 255)),
        st.tuples(st.just("corrupt"), st.sampled_from(matrix), st.just(True), st.integers(0, 2 ** 32 - 1), st.integers(2, 10),
                  st.integers(1, 255)),
        st.tuples(st.just("noise"), st.binary(min_size=1, max_size=12)),
    ).map(list)


case_opp_matrix = st.fixed_dictionaries({
    "chain": st.just("matrix"),
    "items": st.lists(_opp_items(OPP_CHAINS["matrix"][2], OPP_CHAINS["matrix"][3]), min_size=1, max_size=25),
    "cuts": st.lists(st.integers(0, 10 ** 6), max_size=16),
    "single_bytes": st.booleans(),
})


def opp_build(case):
    """Returns (stream, list of (start, end, kind)), and the same stream with bad frames/noise deleted."""
    stream = b""
    clean = b""
    spans = []
    last = {}
    matrix_boards = OPP_CHAINS[case.get("chain", "repo")][3]
    for it in case["items"]:
        k = it[0]
        if k == "frame":
            f = opp_frame(it[1], it[2], it[3]) + b"\xff"
            spans.append((len(stream), len(stream) + len(f) - 1, "frame"))
            stream += f
            clean += f
            last[(it[1], it[2])] = it[3]
        elif k == "eom":
            stream += b"\xff"
            clean += b"\xff"
        elif k == "corrupt":
            matrix = it[2] and it[1] in matrix_boards
            state = it[3] if not matrix else (it[3] << 32 | it[3])
            f = bytearray(opp_frame(it[1], matrix, state))
            pos = 2 + (it[4] - 2) % (len(f) - 2)
            f[pos] ^= it[5]
            body, c = bytes(f[:-1]), f[-1]
            if crc8(body) == c:
                continue        # the flip produced another valid frame: not a corruption
            spans.append((len(stream), len(stream) + len(f), "corrupt"))
            stream += bytes(f) + b"\xff"
            clean += b"\xff"
        elif k == "noise":
            # noise ends with an end-of-message byte and contains no card address (0x20-0x3f)
            n = bytes(b for b in it[1] if not 0x20 <= b <= 0x3f) + b"\xff"
            spans.append((len(stream), len(stream) + len(n), "noise"))
            stream += n
    return stream, clean, spans, last


def opp_reset(chain="repo"):
    case, plat, comm, seen = opp_rig(chain)
    comm.part_msg = b""
    comm._lost_synch = False        # pylint: disable=protected-access
    for b in OPP_CHAINS[chain][2]:
        comm._parse_msg(opp_frame(b, False, 2 ** 32 - 1) + b"\xff")      # pylint: disable=protected-access
    for b in OPP_CHAINS[chain][3]:
        comm._parse_msg(opp_frame(b, True, 2 ** 64 - 1) + b"\xff")   # pylint: disable=protected-access
    comm._parse_msg(b"\xff\xff")   # pylint: disable=protected-access
    case.advance_time_and_run(0.001)
    del seen[:]


def opp_states(chain="repo"):
    case, plat, comm, seen = opp_rig(chain)
    return {s.name: s.state for s in case.machine.switches.values()}


def opp_deliver(chunks, chain="repo"):
    case, plat, comm, seen = opp_rig(chain)
    opp_reset(chain)
    err = None
    try:
        for c in chunks:
            comm._parse_msg(c)      # pylint: disable=protected-access
        comm._parse_msg(b"\xff\xff\xff")   # idle line: end-of-message bytes flush nothing but let a resync finish
        case.advance_time_and_run(0.001)
    except Exception as e:   # pylint: disable=broad-except
        err = e
    return list(seen), opp_states(chain), err


def chunks_of(stream, case):
    n = len(stream)
    if case["single_bytes"]:
        return [stream[i:i + 1] for i in range(n)], set(range(1, n))
    cut = sorted(set(c % (n + 1) for c in case["cuts"]) - {0, n})
    return [stream[a:b] for a, b in zip([0] + cut, cut + [n])], set(cut)


def check_opp(case):
    chain = case.get("chain", "repo")
    rigcase, plat, comm, seen = opp_rig(chain)
    stream, clean, spans, last = opp_build(case)
    if not stream:
        return Result(None, ["empty"], False)
    chunks, cuts = chunks_of(stream, case)
    vio = []
    whole_msgs, whole_state, e1 = opp_deliver([stream], chain)
    part_msgs, part_state, e2 = opp_deliver(chunks, chain)
    clean_msgs, clean_state, e3 = opp_deliver([clean], chain)
    classes = ["single-bytes" if case["single_bytes"] else ("split" if cuts else "whole")]
    inside = any(s < c < e for s, e, k in spans for c in cuts)
    kinds = [k for _, _, k in spans]
    bad_then_good = any(k in ("corrupt", "noise") and "frame" in kinds[i + 1:] for i, k in enumerate(kinds))
    if inside:
        classes.append("split-inside-frame")
    if "corrupt" in kinds:
        classes.append("corrupted-frame")
    if "noise" in kinds:
        classes.append("noise")
    for e in (e1, e2, e3):
        if e is not None:
            vio.append(violation("opp:decoder-raises:" + type(e).__name__, "OPP decoder raised %r on stream %s" % (e, stream.hex())))
    if not vio:
        if whole_msgs != part_msgs or whole_state != part_state:
            diff = {k: (whole_state[k], part_state[k]) for k in whole_state if whole_state[k] != part_state[k]}
            vio.append(violation("opp:split-dependent", "decoded messages/switch states depend on the read splitting: stream %s "
                                 "chunks %r: %d vs %d messages, state differences %r" % (
                                     stream.hex(), [c.hex() for c in chunks][:20], len(whole_msgs), len(part_msgs), diff)))
        # integrity + resynchronisation: bad frames and noise change nothing -> same final state as the clean stream
        if whole_state != clean_state:
            diff = {k: (clean_state[k], whole_state[k]) for k in whole_state if whole_state[k] != clean_state[k]}
            vio.append(violation("opp:bad-frame-changed-state" if "corrupt" in kinds else "opp:not-resynchronised",
                                 "stream %s (with corrupted/noise parts %r) leaves switch states %r different from the same "
                                 "stream without those parts (expected, got)" % (stream.hex(), spans, diff)))
        # last report wins (expected from the frames themselves)
        exp = {}
        for sw in rigcase.machine.switches.values():
            num = sw.hw_switch.number
            try:
                _, card, idx = num.split("-")
            except ValueError:
                continue
            board = 0x20 + int(card)
            idx = int(idx)
            matrix = idx >= 32
            key = (board, matrix)
            word = last.get(key, (2 ** 64 - 1) if matrix else (2 ** 32 - 1))
            bit = (word >> (idx - 32 if matrix else idx)) & 1
            exp[sw.name] = (1 if bit == 0 else 0) ^ (1 if sw.invert else 0)
        wrong = {k: (exp[k], clean_state[k]) for k in exp if clean_state[k] != exp[k]}
        if wrong:
            vio.append(violation("opp:last-report", "after valid reports %r the switch states differ from the last report per "
                                 "board (expected, got): %r" % ({"%x/%s" % k: hex(v) for k, v in last.items()}, wrong)))
    return Result(vio or None, classes, inside or bad_then_good)


# ---- OPP: every single-byte corruption of a report frame (enumerated, replayed from corpus/C14/opp_corrupt) --------------
def check_opp_corrupt(case):
    """case = {"blocks": [[board, matrix, state, pos], ...]}: for every block all 255 wrong values of byte `pos` of the
    report frame are tried. A corrupted frame must change no switch state (unless the result happens to be a valid
    frame of the same board and command), and after it the decoder must take valid frames again (<= 3 of them)."""
    rigcase, plat, comm, seen = opp_rig()
    vio = []
    n = 0
    valid_by_chance = 0
    for board, matrix, state, pos in case["blocks"]:
        good = opp_frame(board, bool(matrix), state)
        pos = pos % len(good)
        _, base_state, e0 = opp_deliver([])
        _, want_after_probe, e1 = opp_deliver([good + b"\xff"])
        for val in range(256):
            if val == good[pos]:
                continue
            n += 1
            f = bytearray(good)
            f[pos] = val
            f = bytes(f)
            crc_ok = crc8(f[:-1]) == f[-1]
            _, st1, err = opp_deliver([f + b"\xff"])
            if err is not None:
                vio.append(violation("opp:decoder-raises:" + type(err).__name__, "OPP decoder raised %r on frame %s" % (err, f.hex())))
                break
            if crc_ok and pos >= 2:
                valid_by_chance += 1        # another valid report of the same board: whatever it says is right
            elif crc_ok:
                valid_by_chance += 1        # address/command changed and the CRC still matches: not a corruption
            elif st1 != base_state:
                diff = {k: (base_state[k], st1[k]) for k in st1 if st1[k] != base_state[k]}
                vio.append(violation("opp:bad-frame-changed-state", "frame %s (byte %d of %s set to %02x, CRC wrong) changed switch "
                                     "states (before, after): %r" % (f.hex(), pos, good.hex(), val, diff)))
                break
            _, st2, err = opp_deliver([f + b"\xff", good + b"\xff", good + b"\xff", good + b"\xff"])
            if err is not None:
                vio.append(violation("opp:decoder-raises:" + type(err).__name__, "OPP decoder raised %r after frame %s" % (err, f.hex())))
                break
            if st2 != want_after_probe and not (crc_ok and pos < 2):
                diff = {k: (want_after_probe[k], st2[k]) for k in st2 if st2[k] != want_after_probe[k]}
                vio.append(violation("opp:not-resynchronised", "after the corrupted frame %s three valid frames %s leave states "
                                     "(expected, got) %r" % (f.hex(), good.hex(), diff)))
                break
        if vio:
            break
    classes = ["single-byte corruptions tried: %d" % n, "#cov:" + ",".join("%x/%d/%d" % (b[0], b[1], b[3]) for b in case["blocks"])]
    if valid_by_chance:
        classes.append("corruption that is a valid frame by chance")
    return Result(vio or None, classes, True)


OPP_CORRUPT_BLOCKS = [[0x20, 0, 0x0000FF0C, p] for p in range(7)] + [[0x21, 0, 0xFFFF00F3, p] for p in range(7)] + \
                     [[0x23, 1, (1 << 63) | 0xF0F0, p] for p in range(11)]
case_opp_corrupt = st.sampled_from(OPP_CORRUPT_BLOCKS).map(lambda b: {"blocks": [b]})


# ---- FAST ---------------------------------------------------------------------------------------------
FAST_SW = list(range(0, 12)) + [0x28, 0x38, 0x3a]
fast_item = st.one_of(
    st.tuples(st.just("closed"), st.sampled_from(FAST_SW)),
    st.tuples(st.just("open"), st.sampled_from(FAST_SW)),
    st.tuples(st.just("closed"), st.sampled_from(FAST_SW)),
    st.tuples(st.just("open"), st.sampled_from(FAST_SW)),
    st.tuples(st.just("sa"), st.binary(min_size=13, max_size=13)),
    st.tuples(st.just("sa"), st.sampled_from([bytes(13), bytes([255] * 13), bytes([0x0c] + [0] * 12)])),
    st.tuples(st.just("ignored"), st.sampled_from(["WD:P", "TL:P"])),
    st.tuples(st.just("garbage"), st.text(alphabet="XYZ#@!$7;,", min_size=1, max_size=10)),
    st.tuples(st.just("garbage_bytes"), st.binary(min_size=1, max_size=6)),
    st.tuples(st.just("empty")),
).map(list)
case_fast = st.fixed_dictionaries({
    "items": st.lists(fast_item, min_size=1, max_size=25),
    "cuts": st.lists(st.integers(0, 10 ** 6), max_size=16),
    "single_bytes": st.booleans(),
})


def fast_build(case):
    stream = b""
    clean = b""
    spans = []
    for it in case["items"]:
        k = it[0]
        if k == "closed":
            f = ("-L:%02X\r" % it[1]).encode()
        elif k == "open":
            f = ("/L:%02X\r" % it[1]).encode()
        elif k == "sa":
            f = ("SA:0E,%s\r" % it[1].hex().upper()).encode()
        elif k == "ignored":
            f = (it[1] + "\r").encode()
        elif k == "garbage":
            f = it[1].encode() + b"\r"
            spans.append((len(stream), len(stream) + len(f), "noise"))
            stream += f
            continue
        elif k == "garbage_bytes":
            f = bytes((b | 0x80) for b in it[1] if b != 0x0d) + b"\r"
            spans.append((len(stream), len(stream) + len(f), "noise"))
            stream += f
            continue
        else:
            f = b"\r"
        spans.append((len(stream), len(stream) + len(f) - 1, "frame"))
        stream += f
        clean += f
    return stream, clean, spans


def fast_reset():
    case, plat, comm, seen = fast_rig()
    comm.received_msg = b""
    comm.parse_incoming_raw_bytes(("SA:0E,%s\r" % bytes(13).hex()).encode())
    case.advance_time_and_run(0.001)
    del seen[:]


def fast_deliver(chunks):
    case, plat, comm, seen = fast_rig()
    fast_reset()
    rejected = 0
    err = None
    for c in chunks:
        data = c
        guard = 0
        while True:
            guard += 1
            try:
                comm.parse_incoming_raw_bytes(data)
                break
            except UnicodeDecodeError:
                rejected += 1       # documented: decode errors are re-raised; the bad frame is already consumed
                data = b""
                if guard > 200:
                    break
            except Exception as e:   # pylint: disable=broad-except
                err = e
                break
    case.advance_time_and_run(0.001)
    return list(seen), {s.name: s.state for s in case.machine.switches.values()}, rejected, err


def check_fast(case):
    rigcase, plat, comm, seen = fast_rig()
    stream, clean, spans = fast_build(case)
    chunks, cuts = chunks_of(stream, case)
    vio = []
    w_msgs, w_state, w_rej, e1 = fast_deliver([stream])
    p_msgs, p_state, p_rej, e2 = fast_deliver(chunks)
    c_msgs, c_state, c_rej, e3 = fast_deliver([clean])
    classes = ["single-bytes" if case["single_bytes"] else ("split" if cuts else "whole")]
    inside = any(s < c < e for s, e, k in spans for c in cuts)
    kinds = [k for _, _, k in spans]
    bad_then_good = any(k == "noise" and "frame" in kinds[i + 1:] for i, k in enumerate(kinds))
    if inside:
        classes.append("split-inside-frame")
    if "noise" in kinds:
        classes.append("noise")
    for e in (e1, e2, e3):
        if e is not None:
            vio.append(violation("fast:decoder-raises:" + type(e).__name__, "FAST decoder raised %r on stream %r" % (e, stream)))
    if not vio:
        if w_msgs != p_msgs or w_state != p_state:
            diff = {k: (w_state[k], p_state[k]) for k in w_state if w_state[k] != p_state[k]}
            vio.append(violation("fast:split-dependent", "decoded messages/switch states depend on the read splitting: stream %r "
                                 "chunks %r; messages %r vs %r; state differences %r" % (stream, chunks[:20], w_msgs[-5:], p_msgs[-5:], diff)))
        if w_state != c_state or w_msgs != c_msgs:
            diff = {k: (c_state[k], w_state[k]) for k in w_state if w_state[k] != c_state[k]}
            vio.append(violation("fast:noise-changed-state", "stream %r with garbage frames gives messages/states different from "
                                 "the stream without them: %r" % (stream, diff)))
        # last report wins
        exp = {}
        sw_by_num = {}
        for sw in rigcase.machine.switches.values():
            if sw.platform is plat:
                sw_by_num[sw.hw_switch.number] = sw
                exp[sw.name] = 0 ^ (1 if sw.invert else 0)     # after the reset SA (all hw bits 0)
        for it in case["items"]:
            if it[0] in ("closed", "open") and it[1] in sw_by_num:
                exp[sw_by_num[it[1]].name] = 1 if it[0] == "closed" else 0
            elif it[0] == "sa":
                for num, sw in sw_by_num.items():
                    if isinstance(num, int):
                        bit = (it[1][num // 8] >> (num % 8)) & 1 if num // 8 < len(it[1]) else 0
                        exp[sw.name] = bit ^ (1 if sw.invert else 0)
        wrong = {k: (exp[k], c_state[k]) for k in exp if c_state[k] != exp[k]}
        if wrong:
            vio.append(violation("fast:last-report", "after the valid reports of %r switch states differ from the last report "
                                 "(expected, got): %r" % (clean, wrong)))
    return Result(vio or None, classes, inside or bad_then_good)


# ---- PKONE framing ----------------------------------------------------------------------------------------
pk_item = st.one_of(
    st.tuples(st.just("msg"), st.sampled_from(["PSW0011", "PSW0120", "PSA011010101010", "PWD", "PXX1", "PLB01"])),
    st.tuples(st.just("msg"), st.text(alphabet="PSWAB0123", min_size=1, max_size=12)),
    st.tuples(st.just("empty")),
).map(list)
case_pk = st.fixed_dictionaries({
    "items": st.lists(pk_item, min_size=1, max_size=20),
    "cuts": st.lists(st.integers(0, 10 ** 6), max_size=12),
    "single_bytes": st.booleans(),
})


def check_pkone(case):
    from mpf.platforms.pkone.pkone_serial_communicator import PKONESerialCommunicator
    import logging
    stream = b""
    spans = []
    expected = []
    for it in case["items"]:
        body = it[1].encode() if it[0] == "msg" else b""
        spans.append((len(stream), len(stream) + len(body), "frame"))
        stream += body + b"E"
        if body and body.decode() not in ("PWD",):
            expected.append(body.decode())
    chunks, cuts = chunks_of(stream, case)

    def deliver(chs):
        got = []

        class P:
            def process_received_message(self, msg):
                got.append(msg)
        loop = asyncio.new_event_loop()
        try:
            asyncio.set_event_loop(loop)
            c = PKONESerialCommunicator.__new__(PKONESerialCommunicator)
            c.received_msg = b""
            c.messages_in_flight = 0
            c.max_messages_in_flight = 10
            c.send_ready = asyncio.Event()
            c.read_task = None
            c.log = logging.getLogger("pk")
            c.platform = P()
            for ch in chs:
                c._parse_msg(ch)        # pylint: disable=protected-access
        finally:
            asyncio.set_event_loop(None)
            loop.close()
        return got
    vio = []
    try:
        whole = deliver([stream])
        part = deliver(chunks)
    except Exception as e:   # pylint: disable=broad-except
        return Result([violation("pkone:decoder-raises:" + type(e).__name__, "PKONE decoder raised %r on %r" % (e, stream))], ["raised"], True)
    if whole != part:
        vio.append(violation("pkone:split-dependent", "PKONE messages depend on the read splitting: %r vs %r (chunks %r)" % (whole, part, chunks)))
    if whole != expected:
        vio.append(violation("pkone:framing", "PKONE stream %r decoded as %r, expected %r" % (stream, whole, expected)))
    inside = any(s < c < e for s, e, k in spans for c in cuts)
    return Result(vio or None, ["single-bytes" if case["single_bytes"] else ("split" if cuts else "whole")], inside)


# ---- FAST flow control ------------------------------------------------------------------------------------
cmd = st.fixed_dictionaries({
    "confirmed": st.booleans(),
    "latency_ms": st.sampled_from([0, 1, 5, 20, 50]),
    "unrelated_before": st.integers(0, 2),
    "gap_ms": st.sampled_from([0, 0, 1, 10]),
})
case_flow = st.fixed_dictionaries({"cmds": st.lists(cmd, min_size=2, max_size=8),
                                   "lost": st.one_of(st.none(), st.fixed_dictionaries({
                                       "timeout_ms": st.sampled_from([20, 50]), "max_retries": st.integers(0, 2)}))})


def check_flow(case):
    rigcase, plat, comm, seen = fast_rig()
    loop = rigcase.loop
    rigcase.advance_time_and_run(0.2)
    log = []

    class W:
        def write(self, data):
            log.append(("write", bytes(data), loop.time()))
    orig_writer = comm.writer
    comm.writer = W()
    orig_wd = getattr(comm, "watchdog_cmd", None)
    vio = []
    classes = set()
    try:
        hdrs = []
        for i, c in enumerate(case["cmds"]):
            hdr = "Q%d:" % i           # headers nobody else uses
            hdrs.append(hdr)
            comm.message_processors[hdr] = (lambda i=i: (lambda msg: log.append(("confirm", i, loop.time()))))()
        t = 0.0
        for i, c in enumerate(case["cmds"]):
            def enqueue(i=i, c=c):
                if c["confirmed"]:
                    comm.send_with_confirmation("Q%d:CMD" % i, "Q%d:" % i)
                else:
                    comm.send_and_forget("F%d:CMD" % i)
                log.append(("queued", i, loop.time()))
            loop.call_later(t, enqueue)
            t += c["gap_ms"] / 1000.0
        # the scripted board: when it sees the write of confirmed command i it answers after the latency
        answered = set()

        alive = [True]

        def board():
            if not alive[0]:
                return
            for entry in list(log):
                if entry[0] == "write" and entry[1].startswith(b"Q") and entry[1][1:2].isdigit():
                    i = int(entry[1][1:entry[1].index(b":")])
                    if i not in answered:
                        answered.add(i)
                        c = case["cmds"][i]

                        def answer(i=i, c=c):
                            for _ in range(c["unrelated_before"]):
                                comm.parse_incoming_raw_bytes(b"WD:P\r")
                            comm.parse_incoming_raw_bytes(("Q%d:P\r" % i).encode())
                        loop.call_later(c["latency_ms"] / 1000.0, answer)
            loop.call_later(0.0005, board)
        loop.call_soon(board)
        rigcase.advance_time_and_run(t + 1.0)
        writes = [(e[1], e[2]) for e in log if e[0] == "write" and (e[1].startswith(b"Q") or e[1].startswith(b"F")) and e[1][1:2].isdigit()]
        order = [int(w[0][1:w[0].index(b":")]) for w in writes]
        queued = [e[1] for e in log if e[0] == "queued"]
        if order != [q for q in queued if q in order]:
            vio.append(violation("flow:order", "commands were written in order %r, queued in order %r" % (order, queued)))
        if len(order) != len(case["cmds"]):
            vio.append(violation("flow:command-lost", "%d commands queued, %d written within 1 s after all confirmations" % (
                len(case["cmds"]), len(order))))
        conf_t = {e[1]: e[2] for e in log if e[0] == "confirm"}
        for n, (w, tw) in enumerate(writes):
            i = int(w[1:w.index(b":")])
            if case["cmds"][i]["confirmed"]:
                tc = conf_t.get(i)
                later = [x for x in writes[n + 1:]]
                if later:
                    classes.add("command-queued-behind-confirmed")
                for w2, t2 in later:
                    if tc is None or t2 < tc - 1e-9:
                        vio.append(violation("flow:write-before-confirmation", "command %r was written at %.4f while the confirmation of %r "
                                             "(written %.4f) %s" % (w2, t2, w, tw, "arrived only at %.4f" % tc if tc is not None else "never arrived")))
                        break
            if vio:
                break
        alive[0] = False
        if case.get("lost"):
            # a confirmed command whose response is lost: it has to be re-sent as configured and must not block what follows
            classes.add("lost-response")
            lost = case["lost"]
            del log[:]
            done = []

            async def sender():
                await comm.send_and_wait_for_response_processed("QL:CMD", "QL:", timeout=lost["timeout_ms"] / 1000.0,
                                                                max_retries=lost["max_retries"])
                done.append(loop.time())
            task = loop.create_task(sender())
            horizon = (lost["max_retries"] + 2) * lost["timeout_ms"] / 1000.0 + 0.5
            rigcase.advance_time_and_run(horizon)
            comm.send_and_forget("FZ:CMD")
            rigcase.advance_time_and_run(0.5)
            sent = [e for e in log if e[0] == "write" and e[1].startswith(b"QL:")]
            after = [e for e in log if e[0] == "write" and e[1].startswith(b"FZ:")]
            if len(sent) != lost["max_retries"] + 1:
                vio.append(violation("flow:lost-response-not-retried", "a confirmed command whose response was lost was written %d time(s) "
                                     "with timeout %d ms and max_retries %d (expected %d)" % (
                                         len(sent), lost["timeout_ms"], lost["max_retries"], lost["max_retries"] + 1)))
            if not after:
                vio.append(violation("flow:queue-blocked-after-lost-response", "a command queued %.2f s after a lost response was never "
                                     "written" % horizon))
            task.cancel()
            comm.no_response_waiting.set()
            comm.done_waiting.set()
            rigcase.advance_time_and_run(0.01)
    finally:
        try:
            alive[0] = False
        except NameError:
            pass
        comm.writer = orig_writer
        for hdr in list(comm.message_processors):
            if hdr.startswith("Q") and hdr[1:-1].isdigit():
                del comm.message_processors[hdr]
        comm.pause_sending_flag.clear()
        del orig_wd
    return Result(vio or None, sorted(classes) or ["plain"], bool(classes))


SUBCHECKS = [
    SubCheck("opp", lambda: case_opp, check_opp, quick=1500, thorough=60000, procs_quick=4,
             fuzz={"quick": 1500, "thorough": 100000, "modules": ['mpf.platforms.opp.opp', 'mpf.platforms.opp.opp_serial_communicator', 'mpf.platforms.opp.opp_rs232_intf']}),
    # a chain with a board that has a switch matrix but no direct inputs (and one with inputs only, one with both)
    SubCheck("opp_matrix", lambda: case_opp_matrix, check_opp, quick=1000, thorough=40000, procs_quick=3),
    SubCheck("fast", lambda: case_fast, check_fast, quick=1200, thorough=50000, procs_quick=4,
             fuzz={"quick": 1500, "thorough": 100000, "modules": ['mpf.platforms.fast.fast', 'mpf.platforms.fast.communicators.base', 'mpf.platforms.fast.communicators.net_neuron']}),
    SubCheck("pkone", lambda: case_pk, check_pkone, quick=1500, thorough=40000, procs_quick=2,
             fuzz={"quick": 2000, "thorough": 150000, "modules": ['mpf.platforms.pkone.pkone', 'mpf.platforms.pkone.pkone_serial_communicator']}),
    SubCheck("flow", lambda: case_flow, check_flow, quick=600, thorough=20000, procs_quick=2),
    # all single-byte corruptions: the enumeration lives in corpus/C14/opp_corrupt (replayed on every run); the
    # generated part only re-draws blocks
    SubCheck("opp_corrupt", lambda: case_opp_corrupt, check_opp_corrupt, quick=20, thorough=100, procs_quick=1),
]
