"""Ball world shared by C04 and C05: generated topology + operation history, a physical ground-truth simulator
owned by the harness, and the run loop that produces observations for both oracles.

The world is the only source of switch changes; it reacts to the coil pulses MPF sends to the (virtual) platform
drivers. All world events are scheduled with loop.call_later on the machine's own virtual loop so that they happen
at their exact virtual time in the middle of an advance.
"""
import collections

from hypothesis import strategies as st

from vlib.rig import Rig

EJECT_TIMEOUT = {"bd_trough": 3.0, "bd_outhole": 2.0, "bd_launcher": 6.0, "bd_lock": 4.0, "bd_vuk": 5.0}
BALL_MISSING = 20.0
QUIET = 75.0          # longer than every configured timeout (ball missing 20 s, eject 6 s, idle missing 5 s)


# ------------------------------------------------------------------------------------------------ generator

def outcome_strategy(to_playfield, timeout):
    ok = st.tuples(st.just("ok"), st.sampled_from([10, 30, 60, 150]), st.sampled_from([50, 200, 600, 1500]),
                   st.booleans()).map(list)
    late = st.tuples(st.just("late"), st.sampled_from([10, 60]),
                     st.sampled_from([int(timeout * 1000) + 300, int(timeout * 1000) + 2500,
                                      int(timeout * 1000) + 9000])).map(list)
    fall = st.tuples(st.just("fall_back"), st.sampled_from([10, 60]),
                     st.sampled_from([100, 400, 900, 2500])).map(list)
    weak = st.just(["weak"])
    if to_playfield:
        return st.one_of(ok, ok, ok, fall, weak)
    return st.one_of(ok, ok, ok, late, fall, weak)


GAPS = [0, 0, 0.01, 0.05, 0.2, 0.5, 0.6, 1.0, 2.0, 3.1, 5.0, 6.5, 11.0, 21.0]


@st.composite
def case_strategy(draw):
    n = draw(st.integers(1, 5))
    trough_kind = draw(st.sampled_from(["switch", "switch", "entrance"]))
    topo = {
        "n": n,
        "trough": {"kind": trough_kind,
                   "cap": n if trough_kind == "entrance" else n + draw(st.integers(0, 1)),
                   "outhole": draw(st.booleans()),
                   # a jam switch in the exit lane (never activated by this world: no jams) must not count as a slot
                   "jam": trough_kind == "switch" and draw(st.booleans())},
        "launcher": {"cap": draw(st.sampled_from([1, 1, 2])), "mechanical": False},
        "lock": None,
        "max_attempts": draw(st.sampled_from([0, 0, 2, 3])),
        "lock_first": draw(st.booleans()),
    }
    if trough_kind == "switch" and topo["trough"]["outhole"] and n >= 2 and draw(st.integers(0, 3)) == 0:
        # the trough is one slot short: the last ball waits in the outhole until there is room (n-1 in the trough at boot)
        topo["trough"]["cap"] = n - 1
    # optional VUK between the launcher and the playfield (trough -> launcher -> VUK -> playfield)
    topo["vuk"] = draw(st.sampled_from([None, None, None, {"cap": 1}, {"cap": 2}]))
    if topo["launcher"]["cap"] == 1 and not topo["vuk"]:
        topo["launcher"]["mechanical"] = draw(st.sampled_from([False, False, True]))
    # a coil-fired launcher with a launch button: player-controlled ejects wait for the event ev_launch
    topo["launcher"]["pc_event"] = not topo["launcher"]["mechanical"] and draw(st.sampled_from([False, False, True]))
    if draw(st.booleans()):
        topo["lock"] = {"kind": draw(st.sampled_from(["switch", "switch", "entrance"])),
                        "cap": draw(st.integers(1, 3))}
        if topo["lock"]["kind"] == "entrance":
            # two entrance lanes and an ignore window: a ball that rattles on its lane's switch counts once
            topo["lock"]["lanes"] = draw(st.sampled_from([1, 2, 2]))
            topo["lock"]["window_ms"] = draw(st.sampled_from([0, 300, 300]))
    # the lock may be a VUK to an upper playfield (balls come back to the main playfield through a transfer switch)
    topo["upper"] = bool(topo["lock"]) and topo["lock"]["kind"] == "switch" and draw(st.booleans())
    devs = ["bd_trough", "bd_launcher"] + (["bd_lock"] if topo["lock"] else []) + (["bd_vuk"] if topo["vuk"] else [])
    ops = [
        st.tuples(st.just("add_ball"), st.integers(1, 3), st.booleans()).map(list),
        st.tuples(st.just("add_ball"), st.integers(1, 2), st.just(False)).map(list),
        st.tuples(st.just("request"), st.sampled_from(["bd_launcher"] + devs[2:])).map(list),
        st.tuples(st.just("eject"), st.sampled_from(devs), st.integers(1, 2)).map(list),
        st.tuples(st.just("eject_all"), st.sampled_from(devs)).map(list),
        st.just(["collect"]),
        st.tuples(st.just("drain"), st.sampled_from([50, 300, 1000, 2500])).map(list),
        st.tuples(st.just("drain"), st.sampled_from([50, 300, 1000, 2500])).map(list),
        st.tuples(st.just("drain"), st.sampled_from([50, 300, 1000, 2500])).map(list),
        st.just(["pf_hit"]),
        st.tuples(st.just("escape"), st.sampled_from(devs), st.integers(1, 2)).map(list),
        st.just(["settle"]),
    ]
    if topo["lock"]:
        ops += [st.tuples(st.just("lock_shot"), st.sampled_from([50, 400, 1500])).map(list)] * 4
        ops += [st.just(["knock"]), st.just(["lock_pair"])]
    if topo["upper"]:
        ops += [st.just(["upper_exit"])] * 3 + [st.just(["pfu_hit"])]
    if topo["launcher"]["mechanical"]:
        ops += [st.tuples(st.just("plunge"), st.sampled_from([0, 100, 700]), st.booleans()).map(list)] * 2
    if topo["launcher"].get("pc_event"):
        ops += [st.just(["launch"])] * 2
    op = st.one_of(*ops)
    first = st.tuples(st.just("add_ball"), st.integers(1, min(n, 3)), st.booleans()).map(list)
    head = draw(st.lists(st.tuples(first, st.sampled_from(GAPS)).map(list), max_size=2))
    steps = head + draw(st.lists(st.tuples(op, st.sampled_from(GAPS)).map(list), min_size=2, max_size=30))
    claims = draw(st.lists(st.sampled_from([True, True, False]), max_size=6))
    if topo["upper"] and draw(st.booleans()):
        # scenario: a ball gets into the VUK; it is either kicked up and rolls back over the transfer switch, or it is
        # held there and pops out while the machine is at rest
        if draw(st.booleans()):
            claims = [False] + claims
            head = [[["add_ball", 1, False], 5.0], [["lock_shot", 50], 3.1], [["upper_exit"], draw(st.sampled_from(GAPS))]]
        else:
            claims = [True] + claims
            head = [[["add_ball", 1, False], 5.0], [["lock_shot", 50], 3.1], [["escape", "bd_lock", 1], 1.0],
                    [["upper_exit"], draw(st.sampled_from(GAPS))]]
        steps = head + steps
    elif topo["lock"] and topo["lock"]["kind"] == "entrance" and topo["lock"].get("lanes") == 2 and n >= 2 and \
            draw(st.booleans()):
        # scenario: two balls reach a two-lane lock almost together (each inside the other lane's ignore window); the lock
        # has room for a third, so a hit counted twice shows in its count
        topo["lock"]["cap"] = 3
        claims = [True, True] + claims
        head = [[["add_ball", 1, False], 6.0], [["add_ball", 1, False], 6.0], [["lock_pair"], draw(st.sampled_from([2.0, 5.0]))]]
        steps = head + steps
    elif topo["lock"] and topo["lock"]["kind"] == "entrance" and n > topo["lock"]["cap"] and draw(st.integers(0, 2)) == 0:
        # scenario: the entrance-counted lock is filled to capacity (the balls are held: claims), then another ball knocks
        # on its entrance switch
        cap = topo["lock"]["cap"]
        claims = [True] * cap + claims
        head = []
        for _ in range(cap + 1):
            head.append([["add_ball", 1, False], 6.0])
        for _ in range(cap):
            head.append([["lock_shot", 50], 2.0])
        head += [[["knock"], draw(st.sampled_from([1.0, 3.0]))], [["knock"], draw(st.sampled_from(GAPS))]]
        steps = head + steps
    outcomes = {}
    for d, to_pf in (("bd_trough", False), ("bd_outhole", False), ("bd_launcher", not topo["vuk"]), ("bd_lock", True),
                     ("bd_vuk", True)):
        outcomes[d] = draw(st.lists(outcome_strategy(to_pf, EJECT_TIMEOUT[d]), max_size=8))
    return {"topo": topo, "steps": steps, "outcomes": outcomes, "claims": claims}


@st.composite
def game_strategy(draw):
    """The same machines with the game, a ball save and a multiball configured; only player/physics operations."""
    c = draw(case_strategy())
    topo = c["topo"]
    calm = draw(st.booleans())
    if calm:
        topo["launcher"]["cap"] = 1
        if topo.get("vuk"):
            topo["vuk"] = {"cap": 1}
    topo["launcher"]["mechanical"] = topo["launcher"]["cap"] == 1 and not topo.get("vuk") and \
        draw(st.sampled_from([False, False, True]))
    topo["launcher"]["pc_event"] = not topo["launcher"]["mechanical"] and draw(st.sampled_from([False, False, True]))
    game = {"balls_per_game": draw(st.integers(1, 3)),
            "ball_save": draw(st.one_of(st.none(), *[st.fixed_dictionaries({
                "active_time": st.sampled_from(["2s", "8s", "30s", "120s"]), "auto_launch": st.booleans(),
                "balls_to_save": st.sampled_from([1, 2, -1, -1]), "eject_delay": st.sampled_from([0, "700ms", "3s", "3s", "event"]),
                "only_last_ball": st.sampled_from([False, False, True]),
                "use_lock": st.booleans()})] * 3)),
            "multiball": draw(st.one_of(st.none(), st.fixed_dictionaries({
                "ball_count": st.integers(2, 3), "ball_count_type": st.sampled_from(["total", "add"]),
                "shoot_again": st.sampled_from(["0", "5s", "20s"]), "use_lock": st.booleans(),
                "replace_balls_in_play": st.booleans()})))}
    ops = [st.just(["start"])] * 3 + [st.tuples(st.just("drain"), st.sampled_from([50, 300, 1000, 2500])).map(list)] * 5
    ops += [st.tuples(st.just("drain2"), st.sampled_from([100, 600, 900, 1500, 2000])).map(list)] * 3
    ops += [st.just(["pf_hit"])] * 2 + [st.just(["settle"]), st.just(["mb_start"]), st.just(["mb_start"]),
                                          st.just(["mb_add"]), st.just(["bs_enable"]), st.just(["early_save"]), st.just(["bs_eject"])]
    if topo.get("upper"):
        ops += [st.just(["upper_exit"])] * 3 + [st.just(["pfu_hit"])]
    if topo["lock"]:
        ops += [st.tuples(st.just("lock_shot"), st.sampled_from([50, 400, 1500])).map(list)] * 3
    if topo["launcher"]["mechanical"]:
        ops += [st.tuples(st.just("plunge"), st.sampled_from([0, 100, 700]), st.booleans()).map(list)] * 4
    if topo["launcher"].get("pc_event"):
        ops += [st.just(["launch"])] * 3
    op = st.one_of(*ops)
    # a third of the histories start with a multiball under way (two balls on the playfield is where saves, drains
    # and ejects overlap); the rest is free
    prefix = draw(st.sampled_from([[], [], [[["mb_start"], 8.0]], [[["bs_enable"], 0.2], [["mb_start"], 11.0]]]))
    steps = [[["start"], draw(st.sampled_from([0.5, 2.0, 5.0, 6.5]))]] + prefix + \
        draw(st.lists(st.tuples(op, st.sampled_from(GAPS)).map(list), min_size=2, max_size=30))
    if draw(st.integers(0, 5)) == 0 and topo["n"] >= 2:
        # scenario: two saves of an active ball save close together (the multiball's own shoot-again is off so that the
        # ball save sees the drains)
        game["ball_save"] = {"active_time": draw(st.sampled_from(["30s", "120s"])), "auto_launch": draw(st.booleans()),
                             "balls_to_save": draw(st.sampled_from([2, -1])),
                             "eject_delay": draw(st.sampled_from([0, "700ms", "3s", "3s"])), "use_lock": False}
        game["multiball"] = {"ball_count": 2, "ball_count_type": "total", "shoot_again": "0", "use_lock": False,
                             "replace_balls_in_play": False}
        steps = [[["start"], 5.0], [["mb_start"], draw(st.sampled_from([8.0, 11.0]))],
                 [["drain2", draw(st.sampled_from([100, 600, 900, 1500, 2000]))], draw(st.sampled_from(GAPS))]] + steps[1:]
    # no harness-made lock claims under a game: a ball held back without telling the game is not something MPF's own
    # lock devices do (they adjust balls_in_play)
    return dict(c, topo=topo, steps=steps, game=game, calm=calm, claims=[])


def _calm(c):
    # the trough must never feed the launcher while the launcher ejects (MPF only does that with a spare slot)
    c = dict(c, calm=True)
    c["topo"] = dict(c["topo"], launcher=dict(c["topo"]["launcher"], cap=1))
    if c["topo"].get("vuk"):
        c["topo"]["vuk"] = {"cap": 1}
    return c


def calm_strategy():
    return case_strategy().map(_calm)


# --------------------------------------------------------------------------------------------- configuration

def game_config(topo, game):
    cfg = {"game": {"balls_per_game": game["balls_per_game"], "allow_start_with_ball_in_drain": True}}
    bs, mb = game.get("ball_save"), game.get("multiball")
    if bs:
        cfg["ball_saves"] = {"bs": {"active_time": bs["active_time"], "enable_events": "ball_started, ev_bs_enable",
                                    "early_ball_save_events": "ev_early_save", "auto_launch": bs["auto_launch"],
                                    "balls_to_save": bs["balls_to_save"],
                                    "only_last_ball": bool(bs.get("only_last_ball"))}}
        if bs["eject_delay"] == "event":
            cfg["ball_saves"]["bs"]["delayed_eject_events"] = "ev_bs_eject"      # saved balls wait for this event
        else:
            cfg["ball_saves"]["bs"]["eject_delay"] = bs["eject_delay"]
        if bs["use_lock"] and topo["lock"]:
            cfg["ball_saves"]["bs"]["ball_locks"] = "bd_lock"
    if mb:
        cfg["multiballs"] = {"mb": {"ball_count": mb["ball_count"], "ball_count_type": mb["ball_count_type"],
                                    "shoot_again": mb["shoot_again"], "start_events": "ev_mb_start",
                                    "add_a_ball_events": "ev_mb_add",
                                    "replace_balls_in_play": mb["replace_balls_in_play"]}}
        if mb["use_lock"] and topo["lock"]:
            cfg["multiballs"]["mb"]["ball_locks"] = "bd_lock"
    return cfg


def build_config(topo):
    n = topo["n"]
    bd = collections.OrderedDict()
    t = topo["trough"]
    trough = {"eject_coil": "c_trough", "eject_targets": "bd_launcher", "confirm_eject_type": "target",
              "eject_timeouts": "3s", "tags": "trough, home" + ("" if t["outhole"] else ", drain"),
              "max_eject_attempts": topo["max_attempts"]}
    if t["kind"] == "switch":
        trough["ball_switches"] = ", ".join("s_t%d" % i for i in range(1, t["cap"] + 1))
        start_active = ["s_t%d" % i for i in range(1, min(n, t["cap"]) + 1)]
        if t.get("jam"):
            trough["jam_switch"] = "s_t_jam"
        if t["cap"] < n:
            start_active.append("s_oh")
    else:
        trough.update({"entrance_switch": "s_t_ent", "entrance_switch_full_timeout": "500ms",
                       "ball_capacity": t["cap"]})
        start_active = ["s_t_ent"]
    lock = None
    if topo["lock"]:
        k = topo["lock"]
        lock = {"eject_coil": "c_lock", "eject_timeouts": "4s", "max_eject_attempts": topo["max_attempts"]}
        if k["kind"] == "switch":
            lock["ball_switches"] = ", ".join("s_k%d" % i for i in range(1, k["cap"] + 1))
        else:
            lock.update({"entrance_switch": "s_k_ent, s_k_ent2" if k.get("lanes", 1) == 2 else "s_k_ent",
                         "ball_capacity": k["cap"]})
            if k.get("window_ms"):
                lock["entrance_switch_ignore_window_ms"] = k["window_ms"]
    if lock and topo.get("upper"):
        lock.update({"eject_targets": "playfield_upper", "ball_missing_target": "playfield_upper",
                     "target_on_unexpected_ball": "playfield_upper"})
    if lock and topo["lock_first"]:
        bd["bd_lock"] = lock
    if t["outhole"]:
        bd["bd_outhole"] = {"ball_switches": "s_oh", "eject_coil": "c_outhole", "eject_targets": "bd_trough",
                            "confirm_eject_type": "target", "eject_timeouts": "2s", "tags": "drain",
                            "max_eject_attempts": topo["max_attempts"]}
    bd["bd_trough"] = trough
    la = topo["launcher"]
    launcher = {"ball_switches": ", ".join("s_l%d" % i for i in range(1, la["cap"] + 1)), "eject_timeouts": "6s",
                "confirm_eject_type": "target", "max_eject_attempts": topo["max_attempts"]}
    if la["mechanical"]:
        launcher["mechanical_eject"] = True
    else:
        launcher["eject_coil"] = "c_launch"
        if la.get("pc_event"):
            launcher["player_controlled_eject_event"] = "ev_launch"
    if topo.get("vuk"):
        launcher["eject_targets"] = "bd_vuk"
    bd["bd_launcher"] = launcher
    if topo.get("vuk"):
        bd["bd_vuk"] = {"ball_switches": ", ".join("s_v%d" % i for i in range(1, topo["vuk"]["cap"] + 1)),
                        "eject_coil": "c_vuk", "eject_timeouts": "5s", "confirm_eject_type": "target",
                        "max_eject_attempts": topo["max_attempts"]}
    if lock and not topo["lock_first"]:
        bd["bd_lock"] = lock
    cfg = {"ball_devices": bd, "virtual_platform_start_active_switches": start_active}
    if topo.get("upper"):
        cfg["playfields"] = {"playfield_upper": {"default_source_device": "bd_lock"}}
        cfg["playfield_transfers"] = {"pt": {"ball_switch": "s_pt", "captures_from": "playfield_upper",
                                             "eject_target": "playfield"}}
    return cfg


# ----------------------------------------------------------------------------------------------------- world

REST_S = 0.6       # a ball that entered a device rests there at least this long (switch counts settle in 0.5 s)


class Dev:
    def __init__(self, name, kind, cap, switches, coil, target, content):
        self.name, self.kind, self.cap, self.switches = name, kind, cap, switches
        self.coil, self.target, self.content = coil, target, content
        self.leaving = False       # a ball is physically on its way out (between pulse and leave)
        self.next_entry = 0.0      # serialises arrivals on an entrance switch
        self.ent_held = False
        self.window = 0.0          # entrance_switch_ignore_window_ms of an entrance-counted lock
        self.lane_next = {}        # lane switch -> time from which the next ball may pass it
        self.lane_rr = 0
        self.last_enter = -10.0    # when the last ball came to rest in it


class World:
    def __init__(self, rig, topo, outcomes, calm=False):
        self.rig, self.m, self.loop = rig, rig.machine, rig.loop
        self.calm = calm
        self.topo = topo
        self.outcomes = {k: list(v) for k, v in outcomes.items()}
        self.loose = 0
        self.loose_up = 0          # balls loose on the upper playfield
        self.idle_plunge_t = None  # when the player last plunged a ball out of an idle mechanical launcher
        self.transit_to = collections.Counter()
        self.pending = 0
        self.changes = 0           # counts every physical change (used to detect quiescence)
        self.delivered = collections.Counter()   # balls that physically arrived at a target because of an eject
        self.log = []
        self.classes = set()
        self.pf_anomaly = set()
        self.retry_drain = 0
        self.mid_eject_entry = False   # a ball (not the ejected one returning) entered a device during its eject
        self.mdev = None
        self.fire_full = []        # coil fired towards a device without room
        self.anomalies = []        # (time, device, kind, pulse_index)
        self.pulses = collections.Counter()
        self.pulse_log = []
        n = topo["n"]
        t = topo["trough"]
        self.devs = collections.OrderedDict()
        if t["kind"] == "switch":
            tr = Dev("bd_trough", "switch", t["cap"], ["s_t%d" % i for i in range(1, t["cap"] + 1)],
                     "c_trough", "bd_launcher", min(n, t["cap"]))
        else:
            tr = Dev("bd_trough", "entrance", t["cap"], ["s_t_ent"], "c_trough", "bd_launcher", n)
            tr.ent_held = True
        self.devs["bd_trough"] = tr
        if t["outhole"]:
            self.devs["bd_outhole"] = Dev("bd_outhole", "switch", 1, ["s_oh"], "c_outhole", "bd_trough",
                                          1 if t["kind"] == "switch" and t["cap"] < n else 0)
        la = topo["launcher"]
        self.devs["bd_launcher"] = Dev("bd_launcher", "switch", la["cap"],
                                       ["s_l%d" % i for i in range(1, la["cap"] + 1)],
                                       None if la["mechanical"] else "c_launch",
                                       "bd_vuk" if topo.get("vuk") else "playfield", 0)
        if topo.get("vuk"):
            self.devs["bd_vuk"] = Dev("bd_vuk", "switch", topo["vuk"]["cap"],
                                      ["s_v%d" % i for i in range(1, topo["vuk"]["cap"] + 1)], "c_vuk", "playfield", 0)
        if topo["lock"]:
            k = topo["lock"]
            if k["kind"] == "switch":
                self.devs["bd_lock"] = Dev("bd_lock", "switch", k["cap"],
                                           ["s_k%d" % i for i in range(1, k["cap"] + 1)], "c_lock",
                                           "playfield_upper" if topo.get("upper") else "playfield", 0)
            else:
                self.devs["bd_lock"] = Dev("bd_lock", "entrance", k["cap"],
                                           ["s_k_ent", "s_k_ent2"][:k.get("lanes", 1)], "c_lock", "playfield", 0)
                self.devs["bd_lock"].window = k.get("window_ms", 0) / 1000.0
        self.drain_dev = "bd_outhole" if t["outhole"] else "bd_trough"
        # watch the platform drivers
        for d in self.devs.values():
            if d.coil:
                self._hook(d)

    # -- plumbing
    def _hook(self, d):
        drv = self.m.coils[d.coil].hw_driver
        orig = drv.pulse

        def pulse(pulse_settings, _orig=orig, _d=d):
            _orig(pulse_settings)
            self.on_pulse(_d)
        drv.pulse = pulse

    def now(self):
        return self.loop.time()

    def note(self, *what):
        self.log.append((round(self.now(), 4),) + what)

    def later(self, secs, fn, *args):
        self.pending += 1

        def run():
            self.pending -= 1
            fn(*args)
        self.loop.call_later(secs, run)

    def sw(self, name, state):
        self.m.switch_controller.process_switch(name, state, logical=True)

    def total(self):
        return self.loose + sum(d.content for d in self.devs.values()) + sum(self.transit_to.values()) + \
            self.in_flight_back

    in_flight_back = 0

    # -- physical content <-> switches
    def _sync(self, d):
        for i, s in enumerate(d.switches):
            want = 1 if i < d.content else 0
            if self.m.switch_controller.is_active(self.m.switches[s]) != bool(want):
                self.sw(s, want)

    def _enter(self, d, returning=False):
        """A ball physically comes to rest in d (caller checked there is room)."""
        if not returning and self.mdev and self.mdev[d.name].state in ("ejecting", "ball_left", "failed_confirm"):
            self.mid_eject_entry = True
            self.classes.add("another ball entered a device during its eject")
        self.changes += 1
        d.content += 1
        d.last_enter = self.now()
        self.note("enter", d.name, d.content)
        if d.kind == "switch":
            self._sync(d)
        else:
            full = d.content == d.cap and d.name == "bd_trough"
            lane = getattr(d, "entry_lane", None) or d.switches[0]
            self.sw(lane, 1)
            if full:
                d.ent_held = True          # the last ball rests on the entrance switch (Gottlieb style)
            else:
                self.later(0.06, self.sw, lane, 0)
                if d.window >= 0.25:
                    # the ball rattles: it hits the switch of its lane again inside that lane's ignore window
                    self.classes.add("ball rattled on its entrance switch inside the ignore window")
                    self.later(0.15, self.sw, lane, 1)
                    self.later(0.21, self.sw, lane, 0)

    def _leave(self, d):
        self.changes += 1
        d.content -= 1
        if d.name == self.drain_dev and self.retry_drain > 0:
            self.retry_drain -= 1
            self.later(0.3, self.drain, 100)
        self.note("leave", d.name, d.content)
        if d.kind == "switch":
            self._sync(d)
        elif d.ent_held:
            d.ent_held = False
            self.sw(d.switches[0], 0)

    def arrive(self, dst, src, by_eject):
        """A ball reaches the entrance of dst (a device name) coming from src (device name or 'playfield')."""
        self.transit_to[dst] -= 1
        d = self.devs[dst]
        if self.calm and src != dst and self.mdev and \
                self.mdev[dst].state in ("ejecting", "ball_left", "failed_confirm"):
            # calm mode: another ball does not get into a device while that device's own eject is unconfirmed
            self.classes.add("arrival held back during the target's eject")
            self.transit_to[dst] += 1
            self.later(0.1, self.arrive, dst, src, by_eject)
            return
        if d.content >= d.cap:
            # no room: the ball cannot get in
            self.classes.add("arrival at full device")
            self.note("bounce", dst, src)
            if src == "playfield":
                if d.kind == "entrance" and not d.ent_held and self.now() >= d.next_entry:
                    # the ball rolls over the entrance switch of the full device and comes back out
                    d.next_entry = self.now() + 0.4
                    self.classes.add("entrance switch of a full device hit again")
                    self.sw(d.switches[0], 1)
                    self.later(0.06, self.sw, d.switches[0], 0)
                self.changes += 1
                self.loose += 1
                if d.name == self.drain_dev:
                    # it rests on top of the drain (still on the playfield) and drops in when there is room
                    self.retry_drain += 1
            else:
                self.transit_to[src] += 1
                self.later(0.3, self.arrive, src, dst, False)
            return
        if d.kind == "entrance":
            # two balls cannot pass the same entrance switch at once: keep them one recycle apart
            t = self.now()
            if len(d.switches) > 1:
                # several lanes: the ball takes the next lane; two balls on one lane stay one recycle apart, balls on
                # different lanes only 0.2 s (inside each other's ignore window)
                lane = d.switches[d.lane_rr % len(d.switches)]
                wait = max(d.lane_next.get(lane, 0.0), d.next_entry - 0.2) - t
                if wait > 0:
                    self.transit_to[dst] += 1
                    self.later(wait, self.arrive, dst, src, by_eject)
                    return
                d.lane_rr += 1
                d.lane_next[lane] = t + 0.4
                d.next_entry = t + 0.4
                d.entry_lane = lane
            else:
                if t < d.next_entry:
                    self.transit_to[dst] += 1
                    self.later(d.next_entry - t, self.arrive, dst, src, by_eject)
                    return
                d.next_entry = t + 0.4
                d.entry_lane = d.switches[0]
        if by_eject:
            self.delivered[dst] += 1
        self._enter(d, returning=(src == dst))

    # -- coil reaction
    def on_pulse(self, d):
        self.pulses[d.name] += 1
        self.pulse_log.append((round(self.now(), 4), d.name))
        if not d.target.startswith("playfield"):
            tgt = self.devs[d.target]
            if d.content > 0 and tgt.content + self.transit_to[tgt.name] >= tgt.cap:
                ctx = ""
                self.fire_full.append({"t": round(self.now(), 4), "source": d.name, "target": tgt.name, "ctx": ctx,
                                       "target_content": tgt.content, "in_transit": self.transit_to[tgt.name],
                                       "capacity": tgt.cap})
        if d.content == 0:
            self.classes.add("coil fired on a physically empty device")
            self.note("pulse_empty", d.name)
            return
        if d.leaving:
            self.note("pulse_while_leaving", d.name)
            return
        oc = self.outcomes[d.name].pop(0) if self.outcomes.get(d.name) else ["ok", 30, 300, True]
        if d.kind == "entrance" and oc[0] in ("weak", "fall_back"):
            oc = ["ok", 30, 300, True]     # an entrance-counted device cannot see a failed eject (outside the domain)
        self.note("pulse", d.name, oc)
        kind = oc[0]
        if kind in ("weak", "fall_back") and d.target.startswith("playfield"):
            self.pf_anomaly.add(d.name)
        if kind == "weak":
            self.classes.add("eject too weak")
            self.anomalies.append({"t": self.now(), "dev": d.name, "kind": "weak", "pulse": self.pulses[d.name]})
            return
        d.leaving = True
        if kind == "ok":
            self.later(oc[1] / 1000.0, self._eject_leave, d, oc[2] / 1000.0, oc[3], None)
        elif kind == "late":
            self.classes.add("late arrival")
            transit = oc[2] / 1000.0
            if d.target == "bd_launcher" and self.topo["launcher"]["mechanical"]:
                # MPF assumes a ball skipped a mechanical plunger when it is later than the plunger's own eject
                # timeout; a ball cannot roll towards the plunger lane for longer than that
                transit = min(transit, EJECT_TIMEOUT[d.name] + 2.5)
            self.later(oc[1] / 1000.0, self._eject_leave, d, transit, True, None)
        else:
            self.classes.add("ball falls back")
            self.anomalies.append({"t": self.now(), "dev": d.name, "kind": "fall_back",
                                   "pulse": self.pulses[d.name]})
            self.later(oc[1] / 1000.0, self._eject_leave, d, None, False, oc[2] / 1000.0)

    def _eject_leave(self, d, transit, hit, back):
        d.leaving = False
        if d.content == 0:
            return
        self._leave(d)
        if back is not None:
            self.transit_to[d.name] += 1
            self.later(back, self.arrive, d.name, d.name, False)
            return
        if d.target == "playfield_upper":
            self.loose_up += 1
            self.delivered["playfield_upper"] += 1
            if hit:
                self.later(transit, self.pf_hit, True)
        elif d.target == "playfield":
            self.loose += 1
            self.delivered["playfield"] += 1
            if hit:
                self.later(transit, self.pf_hit)
        else:
            self.transit_to[d.target] += 1
            self.later(transit, self.arrive, d.target, d.name, True)

    # -- player / physics operations
    def pf_hit(self, upper=False):
        if upper:
            if self.loose_up > 0 and not any(self.devs[n].target == "playfield_upper" and self.mdev and
                                             self.mdev[n].state in ("ejecting", "ball_left", "failed_confirm")
                                             for n in self.pf_anomaly):
                self.sw("s_pfu", 1)
                self.later(0.02, self.sw, "s_pfu", 0)
            return
        for name in list(self.pf_anomaly):
            if self.devs[name].target != "playfield":
                continue
            if self.mdev and self.mdev[name].state in ("ejecting", "ball_left", "failed_confirm"):
                # MPF cannot tell which ball hit a playfield switch: no other ball hits one while a failed eject to
                # the playfield awaits its verdict (documented restriction of the domain)
                self.classes.add("playfield hit held back during a failed eject to the playfield")
                return
            self.pf_anomaly.discard(name)
        if self.loose > 0:
            self.sw("s_pf", 1)
            self.later(0.02, self.sw, "s_pf", 0)

    def drain(self, ms):
        if self.loose <= 0:
            return False
        self.changes += 1
        self.loose -= 1
        self.transit_to[self.drain_dev] += 1
        self.later(ms / 1000.0, self.arrive, self.drain_dev, "playfield", False)
        return True

    def lock_shot(self, ms):
        if self.loose <= 0 or "bd_lock" not in self.devs:
            return False
        self.changes += 1
        self.loose -= 1
        self.transit_to["bd_lock"] += 1
        self.later(ms / 1000.0, self.arrive, "bd_lock", "playfield", False)
        return True

    def knock(self):
        d = self.devs.get("bd_lock")
        if not d or d.kind != "entrance" or d.content < d.cap or self.loose <= 0:
            return False
        if d.leaving:
            return False        # the device is kicking its ball out right now: it is not a full device at rest
        if self.calm and self.mdev and self.mdev[d.name].state in ("ejecting", "ball_left", "failed_confirm"):
            return False        # calm mode: nothing touches the entrance of a device during that device's own eject
        t = self.now()
        if t < d.next_entry:
            return False
        d.next_entry = t + 0.4
        self.sw(d.switches[0], 1)
        self.later(0.06, self.sw, d.switches[0], 0)
        return True

    def plunge(self, delay_ms, weak):
        d = self.devs["bd_launcher"]
        if d.content <= 0 or d.leaving:
            return False
        if self.now() < d.last_enter + REST_S:
            return False        # the player plunges a ball that has come to rest (and has been counted), not one still arriving
        if self.mdev and self.mdev["bd_launcher"].state == "idle":
            self.idle_plunge_t = self.now() + delay_ms / 1000.0      # MPF has no eject set up: it will notice a missing ball
        d.leaving = True
        if weak:
            self.classes.add("weak manual plunge (ball returns)")
            self.pf_anomaly.add(d.name)
            self.later(delay_ms / 1000.0, self._eject_leave, d, None, False, 0.8)
        else:
            self.later(delay_ms / 1000.0, self._eject_leave, d, 0.5, True, None)
        return True

    def escape(self, name, n):
        d = self.devs[name]
        if d.kind != "switch" or d.content < n or d.leaving:
            return False
        if self.now() < d.last_enter + REST_S:
            return False        # balls that bounce out again before they could be counted never were in the device
        for _ in range(n):
            self._leave(d)
            if d.target == "playfield_upper":
                self.loose_up += 1      # a ball popping out of the VUK lands where the VUK delivers to
            else:
                self.loose += 1
        return True

    def upper_exit(self):
        """A ball leaves the upper playfield over the transfer switch and is loose on the main playfield again."""
        if self.loose_up <= 0:
            return False
        self.changes += 1
        self.loose_up -= 1
        self.loose += 1
        self.sw("s_pt", 1)
        self.later(0.03, self.sw, "s_pt", 0)
        return True

    def busy(self):
        return self.pending > 0 or sum(self.transit_to.values()) > 0


# ------------------------------------------------------------------------------------------------------- run

WATCH = ["ball_count_changed", "ball_enter", "ball_entered", "ejecting_ball", "ball_eject_attempt",
         "ball_eject_success", "ball_eject_failed", "ball_missing", "broken", "ball_lost"]


def run(case, focus=None):
    """Runs one history. Returns a dict of observations: violations for C04 and for C05, classes, nontrivial."""
    topo = case["topo"]
    out = {"c04": [], "c05": [], "classes": set(), "nontrivial": False, "error": None}
    patches = build_config(topo)
    game = case.get("game")
    if game:
        patches.update(game_config(topo, game))
    with Rig("balls", patches=patches) as rig:
        m = rig.machine
        w = World(rig, topo, case["outcomes"], calm=bool(case.get("calm")))
        pf = m.playfield
        pfu = m.ball_devices["playfield_upper"] if topo.get("upper") else None
        mdev = {n: m.ball_devices[n] for n in w.devs}
        w.mdev = mdev
        caps = {n: w.devs[n].cap for n in w.devs}
        events = []
        broken = set()
        requests = collections.Counter()
        state = {"stop": False}
        claims = list(case.get("claims") or [])

        def add(lst, sig, msg, **kw):
            if state.get("early_capture_two_pf") and sig in ("rest:playfield-count-differs",
                                                              "rest:upper-playfield-count-differs",
                                                              "rest:playfield-available-differs", "rest:conservation",
                                                              "always:negative-playfield-count"):
                # known finding: the transient -1 of a playfield (capture before the eject is confirmed) makes
                # BallController._balance_playfields move a ball from the other playfield's count - for good
                msg = "[%s] %s" % (sig, msg)
                sig = ("always:" if sig.startswith("always:") else "rest:") + \
                    "playfields-rebalanced-after-capture-before-eject-confirm"
            if state.get("request_at_idle_mechanical_eject_notice") and sig in (
                    "rest:playfield-count-differs", "rest:conservation", "rest:playfield-available-differs", "rest:device-count-differs"):
                msg = "[%s] %s" % (sig, msg)
                sig = "rest:ball-lost-from-the-books:request-at-the-instant-an-idle-mechanical-eject-is-noticed"
            if state.get("request_at_idle_mechanical_eject_notice") and sig == "always:negative-playfield-count":
                msg = "[%s] %s" % (sig, msg)
                sig = "always:ball-lost-from-the-books:request-at-the-instant-an-idle-mechanical-eject-is-noticed"
            if w.mid_eject_entry and not sig.endswith(":capture-before-eject-confirm"):
                # MPF takes a ball which enters a device while that device's eject is unconfirmed for the ejected ball
                # coming back (known finding). Its books are off from then on, so everything observed later in this
                # history is attributed to that root cause. The 'calm' sub-check explores the same histories with
                # such entries held back, and there every violation is reported under its own signature.
                msg = "[%s] %s" % (sig, msg)
                sig = ("always:" if sig.startswith("always:") else "") + "after-ball-entered-device-mid-eject"
            if not any(v["sig"] == sig for v in lst):
                d = {"sig": sig, "msg": msg}
                d.update(kw)
                lst.append(d)

        def hard(key):
            """Violations which end the history (transient 'always' observations do not)."""
            return [v for v in out[key] if not v["sig"].startswith("always:")]

        def always(where):
            for n, d in mdev.items():
                b = d.balls
                if b < 0:
                    add(out["c04"], "always:negative-device-count",
                        "%s.balls == %d (state %s) observed at %s" % (n, b, d.state, where), t=rig.now)
                elif b > caps[n]:
                    add(out["c04"], "always:count-above-capacity",
                        "%s.balls == %d > capacity %d observed at %s" % (n, b, caps[n], where), t=rig.now)
            if pfu is not None and pfu.balls < 0 and pfu.balls + pfu.num_balls_requested >= 0:
                state["early_capture_two_pf"] = True
            if pfu is not None and pfu.balls < 0:
                add(out["c04"], "always:negative-playfield-count" +
                    (":capture-before-eject-confirm" if pfu.balls + pfu.num_balls_requested >= 0 else ""),
                    "playfield_upper.balls == %d (num_balls_requested %d) observed at %s" %
                    (pfu.balls, pfu.num_balls_requested, where), t=rig.now)
            if pf.balls < 0 and pf.balls + pf.num_balls_requested >= 0 and pfu is not None:
                state["early_capture_two_pf"] = True
            if pf.balls < 0:
                if pf.balls + pf.num_balls_requested >= 0:
                    # a ball was captured from the playfield before the eject which brought it there was confirmed
                    add(out["c04"], "always:negative-playfield-count:capture-before-eject-confirm",
                        "playfield.balls == %d (num_balls_requested %d) observed at %s" %
                        (pf.balls, pf.num_balls_requested, where), t=rig.now)
                else:
                    add(out["c04"], "always:negative-playfield-count",
                        "playfield.balls == %d observed at %s; (believed, state, physical): %s" %
                        (pf.balls, where, {n: (d.balls, d.state, w.devs[n].content) for n, d in mdev.items()}),
                        t=rig.now)

        def make_handler(evname):
            def h(**kwargs):
                events.append((round(rig.now, 4), evname))
                always("event " + evname)
                if evname.endswith("_broken"):
                    broken.add(evname[len("balldevice_"):-len("_broken")])
            return h
        names = ["balldevice_%s_%s" % (n, e) for n in mdev for e in WATCH]
        names += ["balldevice_balls_available", "balldevice_ball_missing", "balldevice_captured_from_playfield",
                  "playfield_ball_count_change", "playfield_active", "found_new_ball",
                  "unexpected_ball_on_playfield", "balldevice_playfield_ball_enter", "playfield_upper_ball_count_change",
                  "playfield_upper_active", "balldevice_captured_from_playfield_upper",
                  "playfield_transfer_pt_ball_transferred"]

        def jumped(**kwargs):
            # BallController._balance_playfields moved a ball between the playfield counts. No ball jumps between the
            # playfields in this world: it reacted to a transient negative count (see the known finding)
            state["early_capture_two_pf"] = True
            w.classes.add("playfield_jump posted")
        m.events.add_handler("playfield_jump", jumped, priority=1000)
        for evn in names:
            m.events.add_handler(evn, make_handler(evn), priority=1000)
        if game and game.get("ball_save"):
            saves = []

            def saving(balls=0, **kwargs):
                if balls:
                    saves.append(rig.now)
                    w.classes.add("ball saved")
                    if len(saves) > 1 and game["ball_save"]["eject_delay"] and \
                            saves[-1] - saves[-2] < {"700ms": 0.7, "3s": 3.0, "event": 0}[game["ball_save"]["eject_delay"]]:
                        w.classes.add("two ball saves within the eject delay")
            m.events.add_handler("ball_save_bs_saving_ball", saving)
        if "bd_lock" in mdev:
            def claim(unclaimed_balls, **kwargs):
                if unclaimed_balls and claims and claims.pop(0):
                    w.classes.add("lock keeps a ball")
                    return {"unclaimed_balls": unclaimed_balls - 1}
                return {"unclaimed_balls": unclaimed_balls}
            m.events.add_handler("balldevice_bd_lock_ball_enter", claim, priority=5)

        launches = [0]

        def settle():
            """Let the world and MPF come to rest. Returns False if they do not (bounded liveness)."""
            def wants_plunge():
                la = w.devs["bd_launcher"]
                return topo["launcher"]["mechanical"] and la.content > 0 and not la.leaving and \
                    mdev["bd_launcher"].state not in ("idle", "eject_broken") and "bd_launcher" not in broken
            def wants_launch():
                return topo["launcher"].get("pc_event") and mdev["bd_launcher"].state == "ejecting" and \
                    w.devs["bd_launcher"].content > 0 and not w.devs["bd_launcher"].leaving and \
                    "bd_launcher" not in broken and launches[0] < 40
            for _ in range(60):
                if game and game.get("ball_save") and game["ball_save"]["eject_delay"] == "event":
                    m.events.post("ev_bs_eject")      # whoever holds saved balls back releases them eventually
                guard = 0
                while w.busy() and guard < 400:
                    rig.advance(0.25)
                    guard += 1
                if wants_plunge():
                    if not w.plunge(200, False):    # the player eventually plunges a ball MPF is waiting for
                        rig.advance(REST_S + 0.1)   # ... once it has come to rest
                        w.plunge(200, False)
                    continue
                if wants_launch():
                    launches[0] += 1
                    m.events.post("ev_launch")      # ... or presses the launch button (after any waiting time)
                    rig.advance(EJECT_TIMEOUT["bd_launcher"] + 1.0)     # a failed attempt is over by then
                    continue
                c0, p0 = w.changes, sum(w.pulses.values())
                rig.advance(QUIET)
                if c0 == w.changes and p0 == sum(w.pulses.values()) and not w.busy() and not wants_plunge() and \
                        not wants_launch():
                    if game and game.get("ball_save") and game["ball_save"]["eject_delay"] == "event":
                        m.events.post("ev_bs_eject")      # balls saved since the last release are released as well
                        rig.advance(3.0)
                        if p0 != sum(w.pulses.values()) or w.busy() or c0 != w.changes:
                            continue
                    return True
            return False

        def at_rest(where):
            always(where)
            # ---- C04: counts agree with the world (a device which reported itself broken no longer tracks balls)
            for n, d in mdev.items():
                if broken:
                    break
                if d.balls != w.devs[n].content:
                    add(out["c04"], "rest:device-count-differs",
                        "at rest (%s) %s.balls == %d but %d balls are physically in it" %
                        (where, n, d.balls, w.devs[n].content), t=rig.now)
            if pf.balls != w.loose and not broken:
                add(out["c04"], "rest:playfield-count-differs",
                    "at rest (%s) playfield.balls == %d but %d balls are loose" % (where, pf.balls, w.loose),
                    t=rig.now)
            if pfu is not None and pfu.balls != w.loose_up and not broken:
                add(out["c04"], "rest:upper-playfield-count-differs",
                    "at rest (%s) playfield_upper.balls == %d but %d balls are loose up there (main playfield: %d counted, "
                    "%d loose)" % (where, pfu.balls, w.loose_up, pf.balls, w.loose), t=rig.now)
            total = pf.balls + (pfu.balls if pfu is not None else 0) + sum(d.balls for d in mdev.values())
            known = m.ball_controller.num_balls_known
            if (total != known or known != topo["n"]) and not broken:
                add(out["c04"], "rest:conservation",
                    "at rest (%s) counts sum to %d, num_balls_known == %d, balls in the machine %d" %
                    (where, total, known, topo["n"]), t=rig.now)
            # ---- C05: idle or broken, nothing servable queued
            expecting = set()       # devices a ball is promised to by a source that waits for room
            for n, d in sorted(mdev.items(), key=lambda kv: kv[0] != "bd_outhole"):
                if broken:
                    break       # devices upstream of a broken one legitimately wait for ever
                tgt_ = w.devs[n].target
                waits_for_room = d.state == "waiting_for_target_ready" and not tgt_.startswith("playfield") and \
                    w.devs[tgt_].content >= w.devs[tgt_].cap and w.devs[n].content > 0
                if waits_for_room:
                    w.classes.add("eject waits for room in a full target")
                    expecting.add(tgt_)
                    continue
                if d.state != "idle":
                    add(out["c05"], "rest:not-idle",
                        "at rest (%s) %s is in state %s (world: %d balls in it, %d loose)" %
                        (where, n, d.state, w.devs[n].content, w.loose), t=rig.now)
                if d.available_balls != d.balls and d.state == "idle" and not broken and n not in expecting:
                    add(out["c05"], "rest:claimed-ball-without-eject",
                        "at rest (%s) %s is idle with balls=%d but available_balls=%d" %
                        (where, n, d.balls, d.available_balls), t=rig.now)
            if not broken:
                for n, d in mdev.items():
                    for (target, _pc) in list(d._ball_requests):     # pylint: disable=protected-access
                        ups = upstream(n, strict=(target is d))
                        have = [u for u in ups if w.devs[u].content > 0]
                        if have:
                            # known finding: a device serves one queued request per entering ball and always takes the head of
                            # its queue; a request of the device for balls for itself that no source can deliver stays at the
                            # head and the eject request behind it is never served (head-of-line blocking)
                            own_unservable = target is not d and any(
                                tg is d and not [u for u in upstream(n, strict=True) if w.devs[u].content > 0]
                                for (tg, _p) in d._ball_requests)     # pylint: disable=protected-access
                            add(out["c05"], "rest:servable-request-queued" + (":behind-own-unservable-request" if own_unservable else ""),
                                "at rest (%s) %s still queues a request for %s although %s physically holds a ball" %
                                (where, n, target.name, have) + (" (its queue also holds requests for balls for itself "
                                                                 "that no source can deliver)" if own_unservable else ""), t=rig.now)
                # every request is delivered or still queued
                for tname, r in requests.items():
                    queued = sum(1 for d in mdev.values() for (tg, _pc) in d._ball_requests   # pylint: disable=W0212
                                 if tg.name == tname)
                    if w.delivered[tname] + queued < r:
                        add(out["c05"], "rest:request-lost",
                            "at rest (%s) %d balls were requested for %s, %d were delivered and %d are queued" %
                            (where, r, tname, w.delivered[tname], queued), t=rig.now)
            if game and m.game and not broken:
                bip = m.game.balls_in_play
                in_play = w.loose + w.loose_up + w.devs["bd_launcher"].content + \
                    (w.devs["bd_lock"].content if "bd_lock" in w.devs else 0) + \
                    (w.devs["bd_vuk"].content if "bd_vuk" in w.devs else 0)
                home = sum(w.devs[n].content for n in ("bd_trough", "bd_outhole") if n in w.devs)
                if bip > in_play and home > 0:
                    add(out["c05"], "rest:ball-in-play-not-delivered",
                        "at rest (%s) the game has %d balls in play, %d are physically in play (loose, launcher, lock) "
                        "and %d wait in the trough/outhole" % (where, bip, in_play, home), t=rig.now)
            if pf.available_balls != pf.balls and not broken:
                add(out["c05"], "rest:playfield-available-differs",
                    "at rest (%s) playfield.balls=%d available_balls=%d" % (where, pf.balls, pf.available_balls),
                    t=rig.now)

        def upstream(name, strict):
            res = [] if strict else [name]
            frontier = [name]
            while frontier:
                cur = frontier.pop()
                for s, d in w.devs.items():
                    if d.target == cur and s not in res and s != name:
                        res.append(s)
                        frontier.append(s)
            return res

        def exc_check():
            if rig.exceptions:
                add(out["c05"], "crash:" + type(rig.exceptions[0].get("exception")).__name__,
                    "exception in the machine: %s" % rig.exception_summaries()[0])
                return True
            return False

        always("boot")
        rig.advance(1.0)
        at_rest("boot")
        steps = case["steps"] + [[["settle"], 0]]
        for (op, gap) in steps:
            if (hard(focus) if focus else (hard("c04") or hard("c05"))) or broken:
                break
            kind = op[0]
            applied = True
            if kind in ("add_ball", "request", "eject", "eject_all", "collect", "start", "mb_start", "mb_add", "bs_enable",
                        "early_save", "bs_eject", "launch") and w.idle_plunge_t is not None and \
                    abs(rig.now - (w.idle_plunge_t + 0.5)) <= 0.011:
                # known finding: a request made in the very millisecond in which MPF notices that a ball has left an idle
                # mechanical launcher (0.5 s after it left) races with that handling
                state["request_at_idle_mechanical_eject_notice"] = True
            if kind == "add_ball":
                pf.add_ball(op[1], player_controlled=op[2])
                requests["playfield"] += op[1]
            elif kind == "request":
                dv = w.devs[op[1]]
                if requests[op[1]] >= dv.cap:
                    applied = False      # asking for more balls than the device can hold is a caller error
                else:
                    mdev[op[1]].request_ball()
                    requests[op[1]] += 1
            elif kind == "eject":
                mdev[op[1]].eject(op[2])
                requests[w.devs[op[1]].target if w.devs[op[1]].target.startswith("playfield") and op[1] == "bd_lock"
                         else "playfield"] += op[2]
            elif kind == "eject_all":
                av = mdev[op[1]].available_balls
                if mdev[op[1]].eject_all():
                    requests[w.devs[op[1]].target if w.devs[op[1]].target.startswith("playfield") and op[1] == "bd_lock"
                             else "playfield"] += av
            elif kind == "collect":
                m.ball_controller.collect_balls()
            elif kind == "start":
                w.sw("s_start", 1)
                rig.advance(0.05)
                w.sw("s_start", 0)
                if m.game:
                    w.classes.add("game running")
            elif kind in ("mb_start", "mb_add", "bs_enable", "early_save", "bs_eject"):
                applied = bool(m.game)
                if applied:
                    m.events.post("ev_" + kind)
                    w.classes.add("game op " + kind)
            elif kind == "drain":
                applied = w.drain(op[1])
            elif kind == "drain2":
                # two balls drain one after the other, op[1] ms apart
                applied = w.drain(50)
                if applied and w.loose > 0:
                    rig.advance(op[1] / 1000.0)
                    w.drain(50)
                    w.classes.add("two drains in close succession")
            elif kind == "lock_shot":
                applied = w.lock_shot(op[1])
            elif kind == "lock_pair":
                # two balls reach the lock almost together (on different lanes if it has two)
                applied = w.lock_shot(50)
                if applied and w.lock_shot(60):
                    w.classes.add("two balls into the lock in close succession")
            elif kind == "pf_hit":
                applied = w.loose > 0
                w.pf_hit()
            elif kind == "pfu_hit":
                applied = w.loose_up > 0
                w.pf_hit(True)
            elif kind == "upper_exit":
                applied = w.upper_exit()
                if applied:
                    w.classes.add("ball comes back from the upper playfield")
            elif kind == "knock":
                applied = w.knock()
                if applied:
                    w.classes.add("entrance switch of a full device hit again")
            elif kind == "plunge":
                applied = w.plunge(op[1], op[2])
            elif kind == "launch":
                m.events.post("ev_launch")
                w.classes.add("launch button")
            elif kind == "escape":
                ok = settle()
                if not ok:
                    add(out["c05"], "rest:never-settles", "the machine keeps firing coils without coming to rest")
                    break
                at_rest("before escape")
                if hard("c04") or hard("c05") or broken:
                    break
                applied = w.escape(op[1], op[2])
                if applied:
                    w.classes.add("%d ball(s) bounce out of an idle device" % op[2])
                    if not settle():
                        add(out["c05"], "rest:never-settles", "the machine keeps firing coils without coming to rest")
                        break
                    at_rest("after escape")
            elif kind == "settle":
                if not settle():
                    add(out["c05"], "rest:never-settles", "the machine keeps firing coils without coming to rest")
                    break
                if not exc_check():
                    at_rest("settle")
            if not applied:
                w.classes.add("op skipped: " + kind)
            rig.advance(gap)
            always("after " + kind)
            if exc_check():
                break
        # ---- C04: never fire towards a device without room
        for f in w.fire_full:
            add(out["c04"], "always:fired-at-full-device" + f["ctx"],
                "%(source)s fired towards %(target)s holding %(target_content)d balls with %(in_transit)d more in "
                "transit (capacity %(capacity)d)" % f, t=f["t"])
        # ---- C05: every failed physical eject is retried or reported
        if not broken and not out["c05"]:
            for a in w.anomalies:
                later_pulse = w.pulses[a["dev"]] > a["pulse"]
                failed = any(t >= a["t"] and e == "balldevice_%s_ball_eject_failed" % a["dev"] for t, e in events)
                if not later_pulse and not failed:
                    add(out["c05"], "anomaly-neither-retried-nor-reported",
                        "%s eject (%s) at %.3f was neither followed by another pulse nor by an eject_failed event" %
                        (a["dev"], a["kind"], a["t"]))
        if broken:
            w.classes.add("device reported broken")
            for b in broken:
                if not topo["max_attempts"]:
                    add(out["c05"], "broken-without-limit", "%s reported broken although max_eject_attempts is 0" % b)
                elif w.devs[b].coil and w.pulses[b] < topo["max_attempts"]:
                    add(out["c05"], "broken-without-failed-ejects", "%s reported itself broken after %d coil pulses; "
                        "max_eject_attempts is %d (waiting for the player is not a failed eject)" %
                        (b, w.pulses[b], topo["max_attempts"]))
        out["classes"] = set(w.classes)
        moving = [c for c in w.classes if not c.startswith("op skipped")]
        out["nontrivial"] = bool(moving) or sum(w.pulses.values()) >= 3
        out["log"] = w.log[-60:]
        out["pulses"] = dict(w.pulses)
    return out
