"""C20 — Credits: balance follows the pricing table and stays within bounds."""
import functools
from fractions import Fraction
from unittest.mock import MagicMock

from hypothesis import strategies as st

from vlib.engine import Result, SubCheck, violation
from vlib.rig import Rig

PROPERTY = "C20"
LEVEL = "exploration"
RULE = ("A case is a generated pricing configuration (1-3 coin switches from {0.25,0.5,1,2}, game price, 0-2 higher "
        "tiers, max_credits, expiry times) and a history of coins, service credits, credit events, start presses, "
        "drains, game ends, time advances across the expiry times, free-play toggles and slam tilts. Non-trivial = a "
        "coin whose units cross a tier boundary, or a coin arriving with the balance within one coin of the maximum, "
        "or a game start between coins of one tier, or an expiry that clears something. Distinct = distinct case hash.")
ASSUMPTIONS = [
    "configurations whose coin values or prices are not whole multiples of the credit unit are excluded (the mode "
    "asserts integer units); tier prices strictly increase and no tier gives fewer credits than its price buys",
    "expiry times (5003 / 20011 ms) never coincide with harness operation times (multiples of 100 ms)",
    "start presses are at least 100 ms apart and no handler delays the player-add queue events",
    "the pricing session counter resets at game start, at player 1's second ball (once per game) and when all credits "
    "are cleared, as the mode documents; service credits and credit events add whole credits without tiering",
]

FRAC_EXP = 5003
ALL_EXP = 20011


@st.composite
def case_strategy(draw):
    coins = draw(st.lists(st.sampled_from(["0.25", "0.5", "1", "2"]), min_size=1, max_size=3))
    # one machine in eight takes no coins at all: credits only come from events (no coin and no service switch)
    events_only = draw(st.integers(0, 7)) == 0
    if events_only:
        coins = []
    price = draw(st.sampled_from(["0.25", "0.5", "0.5", "0.75", "1", "1.5", "2"]))
    tiers = []
    ntiers = draw(st.integers(0, 2))
    last = Fraction(price)
    for _ in range(ntiers):
        mult = draw(st.integers(2, 5))
        tp = last * mult if draw(st.booleans()) else last + Fraction(price) * draw(st.integers(1, 3))
        base = tp / Fraction(price)
        cr = int(base) + draw(st.integers(0, 3))
        if cr * Fraction(price) < tp:
            cr += 1
        tiers.append([str(float(tp)), cr])
        last = tp
    cfg = {"coins": coins, "price": price, "tiers": tiers,
           "max_credits": draw(st.sampled_from([0, 0, 1, 2, 3, 5, 12])),
           "frac_exp": draw(st.booleans()), "all_exp": draw(st.booleans()),
           "free_play": draw(st.sampled_from([False, False, False, True])),
           "event_credits": draw(st.sampled_from([1, 1, 2]))}
    nco = len(coins)
    paying = [st.tuples(st.just("coin"), st.integers(0, nco - 1)).map(list), st.just(["service"]), st.just(["award"])] if nco else [
        st.just(["award"]), st.just(["award", 2])]
    op = st.one_of(
        *paying,
        st.just(["start"]), st.just(["start"]), st.just(["drain"]), st.just(["end_game"]),
        st.tuples(st.just("advance"), st.sampled_from([100, 1000, 4000, 5000, 6000, 21000])).map(list),
        st.just(["toggle"]), st.just(["enable_free"]), st.just(["enable_credit"]), st.just(["slam_tilt"]),
    )
    ops = draw(st.lists(op, min_size=3, max_size=45))
    if tiers and nco and not cfg["free_play"] and draw(st.integers(0, 2)) == 0:
        # directed opening: a complete first game that reaches ball 2, then a second game with money put in during ball 1
        # and again after ball 2 has started (the tier count starts afresh at ball 2 of every game)
        pay = [["coin", 0]] * draw(st.integers(2, 6))
        ops = pay + [["start"], ["drain"], ["drain"]] + pay + [["start"]] + [["coin", 0]] * draw(st.integers(1, 3)) + [
            ["drain"]] + [["coin", draw(st.integers(0, nco - 1))]] * draw(st.integers(1, 5)) + ops[:20]
    return {"cfg": cfg, "ops": ops}


def credit_unit(min_coin, price):
    """The mode's documented smallest-unit rule, recomputed with exact fractions."""
    if min_coin == price:
        return min_coin
    if min_coin < price:
        u = price - min_coin
        return min(u, min_coin)
    u = min_coin - price
    return min(u, price)


class Model:
    def __init__(self, cfg):
        self.cfg = cfg
        coins = [Fraction(c) for c in cfg["coins"]]
        price = Fraction(cfg["price"])
        self.u = credit_unit(min(coins) if coins else price, price)    # without coin switches the unit is the game price
        self.ok = True
        vals = coins + [price] + [Fraction(t[0]) for t in cfg["tiers"]]
        if any((v / self.u).denominator != 1 for v in vals):
            self.ok = False
            return
        self.g = int(price / self.u)
        self.coin_units = [int(c / self.u) for c in coins]
        tiers = [(int(price / self.u), 0)]
        for tp, cr in cfg["tiers"]:
            units = int(Fraction(tp) / self.u)
            tiers.append((units, cr * self.g - units))
        self.tiers = sorted(tiers, reverse=True)
        self.wrap = max(t[0] for t in tiers)
        self.cap = cfg["max_credits"] * self.g if cfg["max_credits"] else None
        self.units = 0
        self.c = 0
        self.reset_this_game = False
        self.free = cfg["free_play"]
        self.game = False
        self.players = 0
        self.ball = 0
        self.df = None
        self.da = None
        self.coins_n = 0
        self.coins_sum = Fraction(0)
        self.flags = set() if cfg["coins"] else {"events-only machine"}

    def B(self, x):
        acc = 0
        bonus = 0
        for units, b in self.tiers:
            while x - acc >= units:
                acc += units
                bonus += b
        return bonus

    def add(self, k, tiering):
        old = self.units
        total = old + k
        self.c %= self.wrap
        if tiering:
            for _ in range(k):
                self.c += 1
                inc = self.B(self.c) - self.B(self.c - 1)
                if inc:
                    self.flags.add("tier-boundary-crossed")
                total += inc
                self.c %= self.wrap
        if self.cap is not None:
            if old + k >= self.cap - max(self.coin_units + [self.g]) and old < self.cap:
                self.flags.add("coin-near-maximum")
            total = min(total, self.cap) if old < self.cap else old
        self.units = total

    def reset_timeouts(self, T):
        if self.cfg["frac_exp"]:
            self.df = T + FRAC_EXP
        if self.cfg["all_exp"]:
            self.da = T + ALL_EXP

    def advance(self, T1):
        for t, k in sorted((t, k) for t, k in ((self.df, "f"), (self.da, "a")) if t is not None and t <= T1):
            if k == "f":
                self.df = None
                if self.units % self.g:
                    self.flags.add("expiry-cleared-something")
                self.units -= self.units % self.g
            else:
                self.da = None
                if self.units:
                    self.flags.add("expiry-cleared-something")
                self.units = 0
                self.c = 0


def check(case):
    cfg = case["cfg"]
    model = Model(cfg)
    if not model.ok:
        return Result(None, ["excluded-non-integral-units"], False, excluded="coin/price not a multiple of the credit unit")
    tiers = [{"price": float(Fraction(cfg["price"])), "credits": 1}] + [{"price": float(tp), "credits": cr} for tp, cr in cfg["tiers"]]
    credits = {
        "max_credits": cfg["max_credits"], "free_play": cfg["free_play"],
        "switches": [{"switch": "s_coin%d" % i, "type": "money", "value": float(Fraction(c)), "label": "coin%d" % i}
                     for i, c in enumerate(cfg["coins"])],
        "events": [{"event": "award_credit", "type": "award", "credits": cfg["event_credits"]}],
        "pricing_tiers": tiers,
        "persist_credits_while_off_time": "1h",
    }
    if cfg["coins"]:
        credits["service_credits_switch"] = "s_esc"
    if cfg["frac_exp"]:
        credits["fractional_credit_expiration_time"] = "%dms" % FRAC_EXP
    if cfg["all_exp"]:
        credits["credit_expiration_time"] = "%dms" % ALL_EXP
    vio = []
    with Rig("credits", patches={"credits": credits}) as rig:
        m = rig.machine
        m.playfield.add_ball = MagicMock()
        m.ball_controller.num_balls_known = 3
        cm = m.modes["credits"]
        T = 0

        def units():
            return m.variables.get_machine_var("credit_units") or 0

        def hit(sw):
            m.switch_controller.process_switch(sw, 1, logical=True)
            rig.run_ready()
            m.switch_controller.process_switch(sw, 0, logical=True)
            rig.run_ready()

        def earnings():
            e = cm.earnings
            return e.get("1 Total Coins money", 0), e.get("2 Total Earnings money", 0)

        # sanity of the harness's reading of the configuration
        if not cfg["free_play"]:
            if cm.credit_units_per_game != model.g:
                vio.append(violation("units-per-game", "mode computed %r credit units per game, the documented rule gives %r "
                                     "(unit %s)" % (cm.credit_units_per_game, model.g, model.u)))
        class _Stop(Exception):
            pass

        state = {"T": 0}

        def _step(op):
            T = state["T"]
            k = op[0]
            before = units()
            game_before = m.game is not None
            players_before = m.game.num_players if m.game else 0
            exp_game_start = None
            # an expiry falling inside the 100 ms that follow a start press changes the balance as well
            expiry_near = any(d is not None and T < d <= T + 100 for d in (model.df, model.da))
            if k == "coin":
                hit("s_coin%d" % op[1])
                if not model.free:
                    model.add(model.coin_units[op[1]], True)
                    model.coins_n += 1
                    model.coins_sum += Fraction(cfg["coins"][op[1]])
                    model.reset_timeouts(T)
            elif k == "service":
                hit("s_esc")
                if not model.free:
                    model.add(model.g, False)
            elif k == "award":
                rig.post("award_credit")
                if not model.free:
                    model.add(cfg["event_credits"] * model.g, False)
                    model.reset_timeouts(T)
            elif k == "start":
                if model.game and model.c:
                    model.flags.add("game-start-between-coins-of-a-tier")
                hit("s_start")
                rig.advance(0.1)
                t_after = T + 100       # the press is handled at T, then 100 ms pass
                if not model.game:
                    ok = model.free or model.units >= model.g
                    exp_game_start = ok
                    if ok:
                        if model.c:
                            model.flags.add("game-start-between-coins-of-a-tier")
                        model.game, model.players, model.ball = True, 1, 1
                        if not model.free:
                            # only credit play follows the game: expiry timers stop and the pricing session restarts
                            model.df = model.da = None
                            model.c = 0
                            model.units -= model.g
                else:
                    can = model.ball == 1 and model.players < 4
                    if can and (model.free or model.units >= model.g):
                        model.players += 1
                        if not model.free:
                            model.units -= model.g
                T = t_after
                model.advance(T)
            elif k == "drain":
                t_after = T
                if m.game:
                    m.game.balls_in_play = 0
                    rig.advance(0.5)
                    t_after = T + 500
                if model.game:
                    # single-ball turns: next player or next ball, game over after ball 2 of the last player
                    model.cur = getattr(model, "cur", 1)
                    if model.cur < model.players:
                        model.cur += 1
                    else:
                        model.cur = 1
                        model.ball += 1
                        if model.ball == 2 and not model.reset_this_game and not model.free:
                            model.c = 0
                            model.reset_this_game = True
                        if model.ball > 2:
                            model.game = False
                            model.cur = 1
                            if not model.free:
                                model.reset_timeouts(T)
                            model.reset_this_game = False
                T = t_after
                model.advance(T)
            elif k == "end_game":
                t_after = T
                if m.game:
                    m.game.end_game()
                    rig.advance(0.5)
                    t_after = T + 500
                if model.game:
                    model.game = False
                    model.cur = 1
                    if not model.free:
                        model.reset_timeouts(T)
                    model.reset_this_game = False
                T = t_after
                model.advance(T)
            elif k == "advance":
                rig.advance(op[1] / 1000.0)
                T += op[1]
                model.advance(T)
            elif k in ("toggle", "enable_free", "enable_credit"):
                rig.post({"toggle": "toggle_credit_play", "enable_free": "enable_free_play",
                          "enable_credit": "enable_credit_play"}[k])
                new = (not model.free) if k == "toggle" else (k == "enable_free")
                model.free = new
            elif k == "slam_tilt":
                rig.post("slam_tilt")
                # the credits mode clears all credits on a slam tilt; the game (if any) ends
                model.units = 0
                model.c = 0
                rig.advance(0.5)
                if model.game and m.game is None:
                    model.game = False
                    model.cur = 1
                    if not model.free:
                        model.reset_timeouts(T)
                    model.reset_this_game = False
                T += 500
                model.advance(T)
            now = units()
            # ---- model-free invariants
            if now < 0:
                vio.append(violation("negative-balance", "credit_units is %r after %r" % (now, op)))
            if model.cap is not None and now > model.cap and now > before:
                vio.append(violation("above-maximum", "credit_units rose from %r to %r after %r; max_credits %d allows %d "
                                     "units (%d per game)" % (before, now, op, cfg["max_credits"], model.cap, model.g)))
            if k == "start" and not model.free and exp_game_start is not None and not expiry_near:
                started = (m.game is not None) and not game_before
                if started and before < model.g:
                    vio.append(violation("game-started-without-credit", "a game started with %r units (< %d per game)" % (before, model.g)))
                if started and before - now != model.g:
                    vio.append(violation("wrong-deduction", "game start changed the balance from %r to %r, the price is %d "
                                         "units" % (before, now, model.g)))
                if not started and before >= model.g and not game_before:
                    vio.append(violation("game-refused-with-credit", "start refused with %r units (>= %d)" % (before, model.g)))
            if k == "start" and game_before and m.game and not model.free and not expiry_near:
                added = m.game.num_players - players_before
                if added and before - now != model.g * added:
                    vio.append(violation("wrong-deduction:player-add", "adding %d player(s) changed the balance from %r to "
                                         "%r, the price is %d units" % (added, before, now, model.g)))
                if added and before < model.g:
                    vio.append(violation("player-added-without-credit", "a player was added with %r units (< %d)" % (before, model.g)))
            # ---- game state agreement (harness sanity: if the model lost track of the game, stop trusting it)
            if (m.game is not None) != model.game:
                raise _Stop(Result(vio or None, ["model-lost-game-state"], False, excluded="game state diverged after %r" % (op,)))
            # ---- reference balance
            if now != model.units and not vio:
                vio.append(violation("balance:%s" % k, "after %r at T=%d ms the balance is %r units, the pricing reference "
                                     "gives %r (before %r; unit %s, %d per game, tiers %r, cap %r, session counter %r, "
                                     "free play %r)" % (op, T, now, model.units, before, model.u, model.g, model.tiers,
                                                        model.cap, model.c, model.free)))
            # ---- rendering
            if not model.free and not vio:
                whole, num = divmod(now, model.g)
                frac = ("%d %d/%d" % (whole, num, model.g) if whole else "%d/%d" % (num, model.g)) if num else str(whole)
                cv = m.variables.get_machine_var("credits_value")
                if cv != frac:
                    vio.append(violation("rendering", "credits_value is %r for %r units (%d per game), expected %r" % (
                        cv, now, model.g, frac)))
            # ---- audits
            n, s = earnings()
            if (n, Fraction(s).limit_denominator(100)) != (model.coins_n, model.coins_sum) and not vio:
                vio.append(violation("audit", "earnings audits show %r coins / %r money, %r coins worth %s were accepted" % (
                    n, s, model.coins_n, model.coins_sum)))
            state["T"] = T

        for op in case["ops"]:
            if vio:
                break
            try:
                _step(op)
            except _Stop as e:
                return e.args[0]
            except Exception as e:   # pylint: disable=broad-except
                import traceback
                vio.append(violation("exception:%s:%s" % (type(e).__name__, op[0]), "operation %r raised %r\n%s" % (
                    op, e, traceback.format_exc()[-800:])))
                break
        exc = rig.exception_summaries()
    if exc:
        vio.append(violation("loop-exception", "exception reached the loop: %s" % exc[:2]))
    classes = sorted(model.flags) + ["tiers=%d" % len(cfg["tiers"]), "cap" if model.cap else "no-cap"]
    return Result(vio or None, classes, bool(model.flags))


SUBCHECKS = [
    SubCheck("history", case_strategy, check, quick=4000, thorough=60000, procs_quick=8),
]
