"""C07 — Mode lifecycle is well-formed and leaves nothing behind."""
import functools

from hypothesis import strategies as st

from vlib.engine import Result, SubCheck, violation
from vlib.rig import Rig

PROPERTY = "C07"
LEVEL = "exploration"
RULE = ("A case is a history over four non-game modes (equal and distinct priorities, one with use_wait_queue, with "
        "counters, a timer, an accrual, a sequence, event/light/coil/show players, and mode code that registers switch "
        "handlers, an event handler and delays): direct start()/stop() calls, start/stop events posted plainly or as "
        "queue events, device activity (hits, switch changes, player events), time gaps, plus requests issued from "
        "handlers of the modes' own lifecycle events and waiting handlers with generated delays on starting/stopping. "
        "Non-trivial = a request issued from a lifecycle handler, or a start/stop requested while the opposite "
        "transition is in progress, or >= 3 start/stop cycles of one mode. Distinct = distinct case hash.")
ASSUMPTIONS = [
    "bounded liveness: every generated wait is <= 60 ms and the case ends with 3 s of virtual quiet; a mode still "
    "starting or stopping then is reported",
    "a start is 'accepted' when the mode's last lifecycle event is 'stopped' (or none) and no start is in progress; a "
    "stop when its last event is 'started'; requests in other states may be ignored",
    "game modes are exercised by C06/C11, not here",
    "registries are compared by (event, owner, function, priority, kwargs keys); the harness's own recorders are part "
    "of the baseline",
]
MODES = ["ma", "mb", "mc", "md"]
PRIO = {"ma": 100, "mb": 100, "mc": 300, "md": 50, "attract": 10}
LIFE = ["will_start", "starting", "started", "will_stop", "stopping", "stopped"]
ACTIVITY = ["hit_a", "hit_a_cond", "stop_ma_cond", "arm_a", "pause_a", "light_b", "coil_b", "play_b", "step_b1", "step_b2", "hit_c", "step_c1", "md_ping"]

mode_i = st.integers(0, 3)
prio_arg = st.sampled_from([None, None, None, 5, 150, 400])
req = st.one_of(
    st.tuples(st.just("start"), mode_i, st.sampled_from(["call", "event", "queue"]), prio_arg),
    st.tuples(st.just("stop"), mode_i, st.sampled_from(["call", "event", "queue"]), st.none()),
).map(list)
op = st.one_of(
    req, req, req,
    st.tuples(st.just("activity"), st.sampled_from(ACTIVITY)).map(list),
    st.tuples(st.just("switch"), st.integers(1, 2), st.integers(0, 1)).map(list),
    st.tuples(st.just("advance"), st.sampled_from([0, 1, 10, 30, 50, 100, 300])).map(list),
    st.tuples(st.just("advance"), st.sampled_from([0, 1, 10, 30, 50, 100, 300])).map(list),
)
hook = st.fixed_dictionaries({
    "mode": mode_i, "event": st.sampled_from(LIFE),
    "request": req,                              # issued from inside the handler of that lifecycle event
    "once": st.booleans(),
})
waiter = st.fixed_dictionaries({"mode": mode_i, "event": st.sampled_from(["starting", "stopping"]),
                                "delay": st.sampled_from([0, 5, 20, 60])})
# scenario: the mode stops while one of its devices has a timer of its own pending (timed pause of the mode's timer,
# hit window / timeout of its counter): nothing of it may fire or stay registered after the stop
pending_stop = st.tuples(st.sampled_from(["pause_a", "hit_a", "arm_a"]), st.sampled_from([0, 10, 30]),
                         st.sampled_from(["call", "event"])).map(lambda t: ["pending_stop"] + list(t))


def _expand(ops):
    out = []
    for o in ops:
        if o[0] == "pending_stop":
            out += [["start", 0, "call", None], ["advance", 50], ["activity", o[1]], ["advance", o[2]],
                    ["stop", 0, o[3], None], ["advance", 100], ["advance", 300]]
        else:
            out.append(o)
    return out


case_strategy = st.fixed_dictionaries({
    "hooks": st.lists(hook, min_size=0, max_size=3),
    "waiters": st.lists(waiter, max_size=3),
    "ops": st.lists(st.one_of(op, op, op, op, op, op, op, op, op, op, op, pending_stop), min_size=3, max_size=40).map(_expand),
})


def _cbkey(cb):
    if isinstance(cb, functools.partial):
        return ("partial", _cbkey(cb.func), tuple(sorted(cb.keywords)) if cb.keywords else ())
    s = getattr(cb, "__self__", None)
    f = getattr(cb, "__func__", cb)
    owner = getattr(s, "name", None) or type(s).__name__ if s is not None else None
    return (str(owner), getattr(f, "__qualname__", repr(f)))


def snapshot(m):
    snap = {}
    ev = []
    for name, lst in m.events.registered_handlers.items():
        for h in lst:
            ev.append((name, _cbkey(h.callback), h.priority, tuple(sorted(h.kwargs.keys()))))
    snap["event_handlers"] = sorted(map(repr, ev))
    sw = []
    for switch, states in m.switch_controller.registered_switches.items():
        for st_, lst in enumerate(states):
            for e in lst:
                sw.append((switch.name, st_, e.ms, _cbkey(e.callback)))
    snap["switch_handlers"] = sorted(map(repr, sw))
    snap["timed_switch_entries"] = sorted(repr((k.name, sorted(v.keys()))) for k, v in
                                          m.switch_controller._active_timed_switches.items() if v)   # pylint: disable=protected-access
    dl = []
    for name in MODES:
        dl += ["%s:%s" % (name, k) for k in m.modes[name].delay.delays if not _is_uuid(k)] + \
              ["%s:<anon>" % name for k in m.modes[name].delay.delays if _is_uuid(k)]
    for coll in ("counters", "accruals", "sequences", "timers"):
        for dev in getattr(m, coll).values():
            d = getattr(dev, "delay", None)
            if d is not None:
                dl += ["%s.%s:%s" % (coll, dev.name, k) for k in d.delays]
    snap["delays"] = sorted(dl)
    snap["running_timers"] = sorted(t.name for t in m.timers.values() if t.running or t.timer is not None)
    snap["light_stacks"] = sorted(repr((l.name, [(e.key, e.priority) for e in l.stack])) for l in m.lights.values())
    snap["coils_enabled"] = sorted(c.name for c in m.coils.values() if getattr(c.hw_driver, "state", None) == "enabled")
    inst = []
    for pname in ("show_player", "light_player", "coil_player"):
        player = getattr(m, pname, None)
        if player is None:
            continue
        for ctx in MODES:
            d = player.instances.get(ctx, {}).get(player.config_file_section, {})
            if d:
                inst.append("%s:%s:%s" % (pname, ctx, sorted(map(str, d.keys()))))
    snap["config_player_instances"] = sorted(inst)
    return snap


def _is_uuid(k):
    return isinstance(k, str) and len(k) == 36 and k.count("-") == 4


def check(case):
    vio = []
    classes = set()
    with Rig("modes7") as rig:
        m = rig.machine
        ev = m.events
        log = []            # (mode, lifecycle event, t); the mode code of md appends its own callbacks
        m.c07_trace = log
        reqlog = []
        last = {n: None for n in MODES}
        counts = {n: 0 for n in MODES}
        pending_clears = [0]
        fired_hooks = set()
        hooks_on = [True]
        hook_budget = [40]

        def v(sig, msg):
            if len(vio) < 6:
                vio.append(violation(sig, msg))

        def state(n):
            return last[n]

        def do_request(r, ctx):
            kind, mi, how = r[0], r[1], r[2]
            extra = {"mode_priority": r[3]} if len(r) > 3 and r[3] is not None else {}
            if extra:
                classes.add("explicit-mode-priority")
            n = MODES[mi]
            st_ = state(n)
            if ctx != "top":
                classes.add("request-from-lifecycle-handler")
            if kind == "start" and st_ in ("will_stop", "stopping"):
                classes.add("request-during-opposite-transition")
            if kind == "stop" and st_ in ("will_start", "starting"):
                classes.add("request-during-opposite-transition")
            must = None
            if kind == "start" and st_ in (None, "stopped"):
                must = "will_start"
            if kind == "stop" and st_ == "started":
                must = "will_stop"
            reqlog.append({"kind": kind, "mode": n, "how": how, "state": st_, "must": must, "pos": len(log), "ctx": ctx,
                           "t": rig.now})
            if how == "call":
                getattr(m.modes[n], kind)(**extra)
            elif how == "event":
                ev.post("%s_%s" % (kind, n), **extra)
            else:
                ev.post_queue("%s_%s" % (kind, n), callback=lambda **kwargs: None, **extra)

        def lifecycle(n, name, **kwargs):
            prev = last[n]
            idx = LIFE.index(name)
            expected_prev = LIFE[idx - 1] if idx > 0 else "stopped"
            if not (prev == expected_prev or (prev is None and name == "will_start")):
                v("lifecycle-order:%s-after-%s" % (name, prev), "mode %s posted %s after %s (full sequence %r)" % (
                    n, name, prev, [e[1] for e in log if e[0] == n][-8:]))
            last[n] = name
            log.append((n, name, rig.now))
            if name == "started":
                counts[n] += 1
                if counts[n] >= 3:
                    classes.add(">=3-cycles")
            for hi, h in enumerate(case["hooks"]):
                if hooks_on[0] and MODES[h["mode"]] == n and h["event"] == name:
                    if h["once"] and hi in fired_hooks:
                        continue
                    hook_budget[0] -= 1
                    if hook_budget[0] < 0:      # a start<->stop hook pair would otherwise cycle for ever at one instant
                        classes.add("hook-budget-cut")
                        continue
                    fired_hooks.add(hi)
                    do_request(h["request"], "hook:%s_%s" % (n, name))

        for n in MODES:
            for name in LIFE:
                ev.add_handler("mode_%s_%s" % (n, name), functools.partial(lifecycle, n, name), priority=-5)

        def mk_waiter(w):
            def handler(queue, **kwargs):
                queue.wait()
                if w["delay"] == 0:
                    queue.clear()
                else:
                    pending_clears[0] += 1

                    def clear():
                        pending_clears[0] -= 1
                        queue.clear()
                    m.clock.loop.call_later(w["delay"] / 1000.0, clear)
            return handler
        for w in case["waiters"]:
            ev.add_handler("mode_%s_%s" % (MODES[w["mode"]], w["event"]), mk_waiter(w), priority=5)
        rig.advance(0.05)
        base = snapshot(m)
        leak_checked = [0]

        def check_active_list(where):
            real = [(x.name) for x in m.mode_controller.active_modes]
            active = [x.name for x in m.modes.values() if x.active]
            if sorted(real) != sorted(active):
                v("active-list-content", "active_modes %r but active modes are %r (%s)" % (real, sorted(active), where))
                return
            pr = [m.modes[x].priority for x in real]
            if any(a < b for a, b in zip(pr, pr[1:])):
                v("active-list-order", "active_modes %r have priorities %r (%s)" % (real, pr, where))

        def check_requests(where):
            for r in reqlog:
                if r.get("done"):
                    continue
                if r["must"]:
                    later = [e for e in log[r["pos"]:] if e[0] == r["mode"] and e[1] == r["must"]]
                    if later:
                        r["done"] = True
                    elif rig.now > r["t"] + 0.001:
                        r["done"] = True
                        v("request-ignored:%s:%s" % (r["kind"], r["state"]), "%s request (%s, from %s) for mode %s in state %r was not "
                          "acted on: no %s followed (%s)" % (r["kind"], r["how"], r["ctx"], r["mode"], r["state"], r["must"], where))
                else:
                    r["done"] = True

        def check_leaks(where):
            if any(last[n] not in (None, "stopped") for n in MODES) or pending_clears[0]:
                return
            if any(m.modes[n].active or m.modes[n].starting or m.modes[n].stopping for n in MODES):
                return
            now = snapshot(m)
            leak_checked[0] += 1
            for k in base:
                if now[k] != base[k]:
                    extra = [x for x in now[k] if x not in base[k]]
                    gone = [x for x in base[k] if x not in now[k]]
                    v("leak:%s" % k, "all modes stopped (%s) but %s differs from the state before any mode ran: extra %r, "
                      "missing %r" % (where, k, extra[:4], gone[:4]))
                    return

        for o in case["ops"]:
            if vio:
                break
            k = o[0]
            try:
                if k in ("start", "stop"):
                    do_request(o, "top")
                    rig.run_ready()
                elif k == "activity":
                    ev.post(o[1])
                    rig.run_ready()
                elif k == "switch":
                    m.switch_controller.process_switch("s_m%d" % o[1], o[2], logical=True)
                    rig.run_ready()
                elif k == "advance":
                    rig.advance(o[1] / 1000.0)
            except Exception as e:   # pylint: disable=broad-except
                import traceback
                v("exception:%s" % type(e).__name__, "operation %r raised %r\n%s" % (o, e, traceback.format_exc()[-1200:]))
                break
            check_active_list("after %r" % (o,))
            if k == "advance":
                check_requests("after %r" % (o,))
                if o[1] >= 100:
                    check_leaks("after %r" % (o,))
            if rig.exceptions:
                v("loop-exception", "exception reached the loop after %r: %s" % (o, rig.exception_summaries()[:2]))
        if not vio:
            # settle: stop everything, then quiet
            rig.advance(0.5)
            check_requests("at settle")
            hooks_on[0] = False         # the generated lifecycle hooks would restart modes for ever
            for _ in range(20):
                for n in MODES:
                    if m.modes[n].active and not m.modes[n].stopping:
                        m.modes[n].stop()
                rig.advance(0.25)
                if not pending_clears[0] and not any(m.modes[n].active or m.modes[n].starting for n in MODES):
                    break
            rig.advance(3.0)
            for n in MODES:
                md = m.modes[n]
                if md.starting or md.stopping or md.active or last[n] not in (None, "stopped"):
                    v("stuck:%s" % last[n], "mode %s did not come to rest: last lifecycle event %r, active=%r starting=%r "
                      "stopping=%r" % (n, last[n], md.active, md.starting, md.stopping))
            check_active_list("at end")
            if not vio:
                check_leaks("at end")
            if rig.exceptions and not vio:
                v("loop-exception", "exception reached the loop: %s" % rig.exception_summaries()[:2])
            # mode code must not run once its mode has stopped
            running = False
            for e in log:
                if e[0] != "md":
                    continue
                if e[1] == "will_start":
                    running = True
                elif e[1] == "stopped":
                    running = False
                elif e[1].startswith("code:") and not running and not vio:
                    v("mode-code-ran-after-stop", "a handler/delay registered by mode md's code (%s) ran at %.4f after its "
                      "mode_md_stopped event and before the next start: %r" % (e[1], e[2], [x[1] for x in log if x[0] == "md"][-8:]))
    nontrivial = bool(classes & {"request-from-lifecycle-handler", "request-during-opposite-transition", ">=3-cycles"})
    return Result(vio or None, sorted(classes) or ["plain"], nontrivial)


# ---- game mode (devices whose state persists per player, conditional entries) ------------------------------------------
G_ACT = ["arm_e", "arm_e", "disarm_e", "adv_e", "hit_e", "hit_e_cond", "stop_me_cond", "start_me_cond"]
g_op = st.one_of(
    st.tuples(st.just("start"), st.sampled_from(["call", "event"])).map(list),
    st.tuples(st.just("start"), st.sampled_from(["call", "event"])).map(list),
    st.tuples(st.just("stop"), st.sampled_from(["call", "event"])).map(list),
    st.tuples(st.just("activity"), st.sampled_from(G_ACT)).map(list),
    st.tuples(st.just("activity"), st.sampled_from(G_ACT)).map(list),
    st.tuples(st.just("switch3"), st.integers(0, 1)).map(list),
    st.just(["drain"]), st.just(["game_start"]), st.just(["game_end"]),
    st.tuples(st.just("advance"), st.sampled_from([0, 1, 10, 50, 100, 300])).map(list),
)
case_game = st.fixed_dictionaries({"ops": st.lists(g_op, min_size=3, max_size=40).map(lambda l: [["game_start"]] + l)})


def check_game(case):
    """Mode 'me' (game_mode) is started and stopped inside a running game; whenever it is stopped the registries equal
    what they were at the start of the ball (and, with no game running, what they were before the first game)."""
    vio = []
    classes = set()
    global MODES    # pylint: disable=global-statement
    saved_modes = MODES
    MODES = ["ma", "mb", "mc", "md", "me"]
    try:
        with Rig("modes7", base="fakegame") as rig:
            m = rig.machine
            ev = m.events
            me = m.modes["me"]

            def _add_ball(**kwargs):
                m.playfield.balls += 1
                m.playfield.available_balls += 1
            m.playfield.add_ball = _add_ball
            m.ball_controller.num_balls_known = 3
            last = [None]
            seq = []
            phase = {"ball": False}
            ball_base = [None]
            cycles = [0]

            def v(sig, msg):
                if len(vio) < 5:
                    vio.append(violation(sig, msg))

            def lifecycle(name, **kwargs):
                idx = LIFE.index(name)
                expected_prev = LIFE[idx - 1] if idx > 0 else "stopped"
                if not (last[0] == expected_prev or (last[0] is None and name == "will_start")):
                    v("game-mode-lifecycle-order:%s-after-%s" % (name, last[0]),
                      "mode me posted %s after %s (%r)" % (name, last[0], seq[-8:]))
                last[0] = name
                seq.append(name)
                if name == "started":
                    cycles[0] += 1
            for name in LIFE:
                ev.add_handler("mode_me_" + name, functools.partial(lifecycle, name), priority=-5)
            ev.add_handler("ball_started", lambda **kwargs: phase.__setitem__("ball", True), priority=-1000)
            ev.add_handler("ball_will_end", lambda **kwargs: phase.__setitem__("ball", False), priority=-1000)
            rig.advance(0.05)
            base0 = snapshot(m)

            def stopped():
                return last[0] in (None, "stopped") and not (me.active or me.starting or me.stopping)

            def compare(base, where):
                now = snapshot(m)
                for k in base:
                    if now[k] != base[k]:
                        extra = [x for x in now[k] if x not in base[k]]
                        gone = [x for x in base[k] if x not in now[k]]
                        v("game-mode-leak:%s" % k, "mode me is stopped (%s) but %s differs from the state before it ran: "
                          "extra %r, missing %r" % (where, k, extra[:4], gone[:4]))
                        return

            for o in case["ops"]:
                if vio:
                    break
                k = o[0]
                try:
                    if k == "game_start":
                        if m.game is None:
                            m.switch_controller.process_switch("s_start", 1, logical=True)
                            rig.run_ready()
                            m.switch_controller.process_switch("s_start", 0, logical=True)
                            rig.advance(0.3)
                            if m.game is not None and phase["ball"] and stopped():
                                ball_base[0] = snapshot(m)
                    elif k == "game_end":
                        if m.game is not None:
                            m.game.end_game()
                            m.playfield.balls = 0
                            m.playfield.available_balls = 0
                            rig.advance(1.0)
                            classes.add("game ended")
                    elif k == "drain":
                        if m.game is not None and phase["ball"] and m.game.balls_in_play > 0:
                            ev.post_relay("ball_drain", balls=m.game.balls_in_play)
                            m.playfield.balls = 0
                            m.playfield.available_balls = 0
                            rig.advance(0.6)
                            classes.add("ball ended with the mode " + ("running" if cycles[0] else "never started"))
                            if m.game is not None and phase["ball"] and stopped():
                                ball_base[0] = snapshot(m)
                            else:
                                ball_base[0] = None
                    elif k == "start":
                        can = m.game is not None and phase["ball"] and stopped() and m.game.player is not None
                        pos = len(seq)
                        if o[1] == "call":
                            me.start()
                        else:
                            ev.post("start_me")
                        rig.advance(0.05)
                        if can and "will_start" not in seq[pos:]:
                            v("game-mode-start-ignored", "start request (%s) for the stopped game mode me during a ball was "
                              "not acted on" % o[1])
                    elif k == "stop":
                        if o[1] == "call":
                            me.stop()
                        else:
                            ev.post("stop_me")
                        rig.advance(0.05)
                    elif k == "activity":
                        if o[1] == "arm_e" and me.active:
                            classes.add("enable event while the mode is active")
                        ev.post(o[1])
                        rig.run_ready()
                    elif k == "switch3":
                        m.switch_controller.process_switch("s_m3", o[1], logical=True)
                        rig.run_ready()
                    elif k == "advance":
                        rig.advance(o[1] / 1000.0)
                except Exception as e:   # pylint: disable=broad-except
                    import traceback
                    v("exception:%s" % type(e).__name__, "operation %r raised %r\n%s" % (o, e, traceback.format_exc()[-1200:]))
                    break
                if rig.exceptions:
                    v("loop-exception", "exception reached the loop after %r: %s" % (o, rig.exception_summaries()[:2]))
                if m.game is None:
                    phase["ball"] = False
                    ball_base[0] = None
                    if stopped() and k in ("advance", "game_end", "drain"):
                        rig.advance(0.2)
                        if m.game is None and stopped():
                            compare(base0, "no game running, after %r" % (o,))
                elif phase["ball"] and stopped() and ball_base[0] is not None and k in ("stop", "advance") and cycles[0]:
                    rig.advance(0.05)
                    if phase["ball"] and stopped() and m.game is not None:
                        classes.add("mode stopped inside a ball")
                        compare(ball_base[0], "same ball, after %r" % (o,))
            if not vio:
                if m.game is not None:
                    m.game.end_game()
                    m.playfield.balls = 0
                    m.playfield.available_balls = 0
                rig.advance(3.0)
                if not stopped():
                    v("game-mode-stuck:%s" % last[0], "game mode me did not stop with its game: last event %r, active=%r" %
                      (last[0], me.active))
                elif m.game is None:
                    compare(base0, "at end, no game running")
    finally:
        MODES = saved_modes
    if cycles[0] >= 2:
        classes.add(">=2 cycles of the game mode")
    nontrivial = cycles[0] >= 1 and bool(classes & {"mode stopped inside a ball", "game ended",
                                                    "ball ended with the mode running"})
    return Result(vio or None, sorted(classes) or ["plain"], nontrivial)


SUBCHECKS = [
    SubCheck("history", lambda: case_strategy, check, quick=3000, thorough=40000, procs_quick=8),
    SubCheck("game", lambda: case_game, check_game, quick=1500, thorough=25000, procs_quick=6),
]
