"""C09 — Light hardware output equals the priority stack's colour."""
import asyncio

from hypothesis import strategies as st

from vlib.engine import Result, SubCheck, violation
from vlib.rig import Rig

PROPERTY = "C09"
LEVEL = "exploration"
RULE = ("A case picks a light backend (stock virtual light; recording subclasses of the real LightPlatformDirectFade, "
        "LightPlatformSoftwareFade and PlatformBatchLight driven by a real PlatformBatchLightSystem), a brightness "
        "setting, an optional colour-correction profile and a history of color/on/off(colour, fade, priority, key), "
        "remove_from_stack_by_key(key, fade), clear_stack and gaps landing inside, at the end of and after fades, on a "
        "single-channel, an RGB and an RGBW light. Non-trivial = a command or removal landing inside a running fade, "
        "or >= 3 keys with distinct priorities alive at once, or a fade-out removal. Distinct = distinct case hash.")
ASSUMPTIONS = [
    "the light's own gamma_correct()/color_correct() are the reference for brightness and colour correction of a "
    "given colour (the check is that the *right* colour reaches the hardware, corrected)",
    "RGBW mapping follows the documented rgbw_white_behavior (duck_rgb default): white = min(r,g,b), colour channels "
    "minus that minimum",
    "equal priorities with different keys may show either entry",
    "quiescence = 3 s after the last operation (every generated fade is <= 2 s)",
    "mid-fade tracking (hardware follows the logical fade) is asserted on the virtual and direct-fade backends with a "
    "tolerance of 0.06 full-scale",
]
PALETTE = ["red", "00ff00", "blue", "white", "808080", "0a141e", "off", "ffff00"]
FADES = [0, 0, 1, 50, 500, 2000]
KEYS = [None, "a", "b", "c"]
LIGHTS = ["l_w", "l_rgb", "l_rgbw"]
op = st.one_of(
    st.tuples(st.just("color"), st.sampled_from(LIGHTS), st.sampled_from(PALETTE), st.sampled_from(FADES),
              st.integers(0, 3), st.sampled_from(KEYS)).map(list),
    st.tuples(st.just("color"), st.sampled_from(LIGHTS), st.sampled_from(PALETTE), st.sampled_from(FADES),
              st.integers(0, 3), st.sampled_from(KEYS)).map(list),
    st.tuples(st.just("color"), st.sampled_from(LIGHTS), st.sampled_from(PALETTE), st.sampled_from(FADES),
              st.integers(0, 3), st.sampled_from(KEYS)).map(list),
    st.tuples(st.just("on"), st.sampled_from(LIGHTS), st.sampled_from(FADES), st.integers(0, 3), st.sampled_from(KEYS)).map(list),
    st.tuples(st.just("off"), st.sampled_from(LIGHTS), st.sampled_from(FADES), st.integers(0, 3), st.sampled_from(KEYS)).map(list),
    st.tuples(st.just("remove"), st.sampled_from(LIGHTS), st.sampled_from(KEYS[1:] + [""]), st.sampled_from(FADES)).map(list),
    st.tuples(st.just("remove"), st.sampled_from(LIGHTS), st.sampled_from(KEYS[1:] + [""]), st.sampled_from(FADES)).map(list),
    st.tuples(st.just("clear"), st.sampled_from(LIGHTS)).map(list),
    st.tuples(st.just("advance"), st.sampled_from([0, 1, 10, 25, 49, 50, 51, 250, 499, 500, 1000])).map(list),
    st.tuples(st.just("advance"), st.sampled_from([0, 1, 10, 25, 49, 50, 51, 250, 499, 500, 1000])).map(list),
    st.just(["settle"]),
)
# scenario: an entry is removed (or replaced) while an entry above it is still fading out - the situation two
# concurrent shows on one light produce when the upper one is released with a fade
under_fade = st.tuples(st.sampled_from(LIGHTS), st.sampled_from(PALETTE), st.sampled_from(PALETTE),
                       st.sampled_from([500, 2000]), st.sampled_from([10, 50, 250, 499]),
                       st.sampled_from(["remove", "remove", "recolor"]), st.sampled_from([0, 0, 50])).map(
    lambda t: ["under_fade"] + list(t))


def _expand_ops(ops):
    out = []
    for o in ops:
        if o[0] == "under_fade":
            _, light, low, high, fade, wait, what, f2 = o
            twin = light == "l_rgb" and what == "remove" and f2 == 0
            out += [["clear", light], ["color", light, low, 0, 1, "a"], ["color", light, high, 0, 2, "b"]]
            out += [["twin", "clear"], ["twin", "color", high, 2, "b"]] if twin else []
            out += [["advance", 50], ["remove", light, "b", fade]]
            out += [["twin", "remove", "b", fade]] if twin else []
            out += [["advance", wait]]
            out += [["remove", light, "a", f2]] if what == "remove" else [["color", light, "ffff00", f2, 1, "a"]]
            out += [["advance", 25]] + ([["twin", "compare"]] if twin else []) + [["advance", 250]] + \
                ([["twin", "compare"]] if twin else [])
        else:
            out.append(o)
    return out


case_strategy = st.fixed_dictionaries({
    "backend": st.sampled_from(["virtual", "direct", "software", "batch"]),
    "brightness": st.sampled_from([1.0, 1.0, 0.5, 0.75]),
    "profile": st.booleans(),
    "rgbw_style": st.sampled_from(["duck_rgb", "duck_rgb", "white_only", "min_rgb"]),
    "ops": st.lists(st.one_of(op, op, op, op, op, op, op, op, op, under_fade), min_size=3, max_size=30).map(_expand_ops),
})


# ---- recording backends -------------------------------------------------------------------------------
class HwModel:
    """What a hardware channel shows: linear fade from its value at command time to the commanded brightness."""

    def __init__(self, loop):
        self.loop = loop
        self.cmds = []          # (t, brightness, fade_ms)
        self.v0 = 0.0
        self.t0 = 0.0
        self.target = 0.0
        self.dur = 0.0

    def command(self, brightness, fade_ms):
        now = self.loop.time()
        self.v0 = self.value(now)
        self.t0 = now
        self.target = brightness
        self.dur = max(fade_ms, 0) / 1000.0
        self.cmds.append((now, brightness, fade_ms))

    def value(self, now=None):
        now = self.loop.time() if now is None else now
        if self.dur <= 0 or now >= self.t0 + self.dur:
            return self.target
        return self.v0 + (self.target - self.v0) * (now - self.t0) / self.dur


def make_backend(kind, machine_ref):
    from mpf.platforms.interfaces.light_platform_interface import LightPlatformDirectFade, LightPlatformSoftwareFade
    from mpf.core.platform_batch_light_system import PlatformBatchLight, PlatformBatchLightSystem
    state = {"system": None, "channels": {}}

    class RecDirect(LightPlatformDirectFade):
        def __init__(self, number, loop):
            super().__init__(number, loop)
            self.hw = HwModel(loop)

        def get_max_fade_ms(self):
            return 100

        def set_brightness_and_fade(self, brightness, fade_ms):
            self.hw.command(brightness, fade_ms)

        def get_board_name(self):
            return "rec-direct"

        def is_successor_of(self, other):
            return False

        def get_successor_number(self):
            return self.number + "+1"

        def __lt__(self, other):
            return self.number < other.number

    class RecSoft(LightPlatformSoftwareFade):
        def __init__(self, number, loop):
            super().__init__(number, loop, 10)
            self.hw = HwModel(loop)

        def set_brightness(self, brightness):
            self.hw.command(brightness, 0)

        def get_board_name(self):
            return "rec-soft"

        def is_successor_of(self, other):
            return False

        def get_successor_number(self):
            return self.number + "+1"

        def __lt__(self, other):
            return self.number < other.number

    class RecBatch(PlatformBatchLight):
        def __init__(self, number, system, loop, idx):
            super().__init__(number, system)
            self.hw = HwModel(loop)
            self.idx = idx

        def get_max_fade_ms(self):
            return 50

        def get_board_name(self):
            return "rec-batch"

        def is_successor_of(self, other):
            return self.idx == other.idx + 1

        def get_successor_number(self):
            return self.number + "+1"

        def __lt__(self, other):
            return self.idx < other.idx

    counter = [0]

    def configure_light(platform, number, subtype, config, platform_settings):
        machine = platform.machine
        loop = machine.clock.loop
        name = "%s-%s" % (subtype or "led", number)
        if kind == "direct":
            ch = RecDirect(name, loop)
        elif kind == "software":
            ch = RecSoft(name, loop)
        else:
            if state["system"] is None:
                async def update(batch):
                    for light, brightness, fade_ms in batch:
                        light.hw.command(brightness, fade_ms)
                state["system"] = PlatformBatchLightSystem(machine.clock, update, 50, 8)
                state["system"].start()
            counter[0] += 1
            ch = RecBatch(name, state["system"], loop, counter[0])
        state["channels"][name] = ch
        return ch
    return configure_light, state


def expected_channels(light, color):
    """Brightness per hardware channel for a logical colour (corrected by the light's own correction functions)."""
    c = light.color_correct(light.gamma_correct(color))
    r, g, b = c.red, c.green, c.blue
    names = set(light.hw_drivers.keys())
    out = {}
    if names == {"white"}:
        out["white"] = min(r, g, b) / 255.0
    elif "white" in names:
        style = light._rbgw_style        # pylint: disable=protected-access
        if style == "duck_rgb":
            w = min(r, g, b)
            out = {"red": (r - w) / 255.0, "green": (g - w) / 255.0, "blue": (b - w) / 255.0, "white": w / 255.0}
        elif style == "white_only":
            if r == g == b:
                out = {"red": 0.0, "green": 0.0, "blue": 0.0, "white": r / 255.0}
            else:
                out = {"red": r / 255.0, "green": g / 255.0, "blue": b / 255.0, "white": 0.0}
        else:
            out = {"red": r / 255.0, "green": g / 255.0, "blue": b / 255.0, "white": min(r, g, b) / 255.0}
    else:
        out = {"red": r / 255.0, "green": g / 255.0, "blue": b / 255.0}
    return out


def hw_value(driver):
    if hasattr(driver, "hw"):
        return driver.hw.value()
    return driver.current_brightness


def check(case):
    from mpf.core.rgb_color import RGBColor
    from mpf.platforms import virtual as vmod
    vio = []
    classes = set()

    def v(sig, msg):
        if len(vio) < 5:
            vio.append(violation(sig + ":" + case["backend"], msg))
    patches = {}
    if case.get("rgbw_style", "duck_rgb") != "duck_rgb":
        patches["mpf"] = {"rgbw_white_behavior": case["rgbw_style"]}
        classes.add("rgbw " + case["rgbw_style"])
    if case["profile"]:
        patches["light_settings"] = {"color_correction_profiles": {"prof": {"gamma": 2.0, "whitepoint": [0.9, 0.8, 1.0],
                                                                             "linear_slope": 0.75, "linear_cutoff": 0.1}},
                                     "default_color_correction_profile": "prof"}
    orig = vmod.VirtualHardwarePlatform.configure_light
    state = None
    if case["backend"] != "virtual":
        fn, state = make_backend(case["backend"], None)
        vmod.VirtualHardwarePlatform.configure_light = fn
    try:
        rig = Rig("lights9", patches=patches)
        rig.start()
    finally:
        vmod.VirtualHardwarePlatform.configure_light = orig
    try:
        m = rig.machine
        if case["brightness"] != 1.0:
            m.variables.set_machine_var("brightness", case["brightness"])
            rig.advance(0.01)
        model = {n: {} for n in LIGHTS}         # key -> (priority, colour)
        involved = {n: [RGBColor("off")] for n in LIGHTS}
        last_fade_end = {n: 0.0 for n in LIGHTS}
        exempt_until = {n: 0.0 for n in LIGHTS}     # mid-fade tracking resumes once the fades nested with a removal are over
        structural = {n: -10.0 for n in LIGHTS}

        def tops(n):
            st_ = model[n]
            if not st_:
                return [RGBColor("off")]
            best = max(p for p, _ in st_.values())
            return [c for p, c in st_.values() if p == best]

        def code_top(n):
            """Tie-break as the documented sort does (priority, then key)."""
            st_ = model[n]
            if not st_:
                return RGBColor("off")
            k = max(st_, key=lambda kk: (st_[kk][0], kk))
            return st_[k][1]

        def check_hull(n, where):
            c = m.lights[n].get_color()
            for ch in ("red", "green", "blue"):
                vals = [getattr(x, ch) for x in involved[n]]
                val = getattr(c, ch)
                if not min(vals) - 1 <= val <= max(vals) + 1:
                    v("outside-endpoints", "%s: %s.get_color() is %r, channel %s outside the colours involved %r" % (
                        where, n, c, ch, [tuple(x) for x in involved[n]]))
                    return

        def check_tracking(n, where):
            if case["backend"] not in ("virtual", "direct") or case["profile"]:
                return      # a gamma profile is not linear: hardware interpolates between corrected endpoints
            if n != "l_rgb":
                return      # white channels are not linear in the colour (min of the components / white_only switch):
                            # the hardware interpolates the mapped endpoints, not the mapped interpolation
            if rig.now < max(structural[n] + 2.1, exempt_until[n]):
                return      # after a removal the hardware fade is one linear segment while the logical colour is a nested
                            # interpolation (a fading-out entry over a fading entry): they only agree again at rest, i.e.
                            # once every fade that began inside the 2.1 s after the removal has ended as well (the
                            # statement binds the hardware once all fades have finished)
            light = m.lights[n]
            exp = expected_channels(light, light.get_color())
            for cname, drivers in light.hw_drivers.items():
                for d in drivers:
                    got = hw_value(d)
                    if abs(got - exp[cname]) > 0.06:
                        v("hardware-not-tracking-fade", "%s: %s channel %s shows %.3f while the logical colour %r (corrected) "
                          "needs %.3f" % (where, n, cname, got, tuple(light.get_color()), exp[cname]))
                        return

        def check_quiescent(where):
            for n in LIGHTS:
                light = m.lights[n]
                c = light.get_color()
                allowed = tops(n)
                if c not in allowed:
                    v("logical-colour-wrong", "%s: %s.get_color() is %r, the stack's highest-priority colour is %r (stack model %r)" % (
                        where, n, tuple(c), [tuple(x) for x in allowed], {k: (p, tuple(col)) for k, (p, col) in model[n].items()}))
                    continue
                exp = expected_channels(light, c)
                for cname, drivers in light.hw_drivers.items():
                    for d in drivers:
                        got = hw_value(d)
                        if abs(got - exp[cname]) > 1e-6:
                            v("hardware-differs-at-rest", "%s: %s channel %s last commanded %.6f, the logical colour %r after "
                              "brightness/colour correction needs %.6f" % (where, n, cname, got, tuple(c), exp[cname]))
                involved[n] = [c] + [col for _, col in model[n].values()]     # hidden entries may show (or start a fade) later

        for o in case["ops"]:
            if vio:
                break
            k = o[0]
            now = rig.now
            try:
                if k in ("color", "on", "off"):
                    n = o[1]
                    light = m.lights[n]
                    if k == "color":
                        col, fade, prio, key = RGBColor(o[2]), o[3], o[4], o[5]
                    elif k == "on":
                        col, fade, prio, key = RGBColor(light.config["default_on_color"]), o[2], o[3], o[4]
                    else:
                        col, fade, prio, key = RGBColor("off"), o[2], o[3], o[4]
                    if now < last_fade_end[n]:
                        classes.add("command-inside-fade")
                    mk = key or ""
                    if k == "color":
                        light.color(o[2], fade_ms=fade, priority=prio, key=key)
                    elif k == "on":
                        light.on(fade_ms=fade, priority=prio, key=key)
                    else:
                        light.off(fade_ms=fade, priority=prio, key=key)
                    if not (mk in model[n] and prio < model[n][mk][0]):
                        model[n][mk] = (prio, col)
                        involved[n].append(col)
                        if fade:
                            last_fade_end[n] = max(last_fade_end[n], now + fade / 1000.0)
                            if now < max(structural[n] + 2.1, exempt_until[n]):
                                exempt_until[n] = max(exempt_until[n], now + fade / 1000.0 + 0.1)
                    if len(set(p for p, _ in model[n].values())) >= 3:
                        classes.add(">=3-priorities")
                elif k == "remove":
                    n, key, fade = o[1], o[2], o[3]
                    if now < last_fade_end[n]:
                        classes.add("command-inside-fade")
                    if key in model[n] and fade:
                        classes.add("fade-out-removal")
                        last_fade_end[n] = max(last_fade_end[n], now + fade / 1000.0)
                    structural[n] = now
                    exempt_until[n] = max(exempt_until[n], last_fade_end[n] + 0.1)
                    m.lights[n].remove_from_stack_by_key(key, fade_ms=fade)
                    gone = model[n].pop(key, None)
                    if gone is not None and fade:
                        involved[n].append(gone[1])     # it keeps fading out for `fade` ms and may show through
                    involved[n].append(RGBColor("off"))
                    involved[n] += [c for _, c in model[n].values()]
                elif k == "twin":
                    # l_rgb2 is configured like l_rgb and only ever gets the upper entry of an under_fade scenario: once
                    # the lower entry has been removed from l_rgb (instantly), both lights hold the same stack and their
                    # hardware has to show the same - "as if the removed entry had never been set"
                    tw = m.lights["l_rgb2"]
                    if o[1] == "clear":
                        tw.clear_stack()
                    elif o[1] == "color":
                        tw.color(RGBColor(o[2]), fade_ms=0, priority=o[3], key=o[4])
                    elif o[1] == "remove":
                        tw.remove_from_stack_by_key(o[2], fade_ms=o[3])
                    elif o[1] == "compare" and case["backend"] == "virtual":
                        classes.add("twin comparison under a fade-out")
                        rig.advance(0.021)
                        a_ = {c: [hw_value(d) for d in ds] for c, ds in m.lights["l_rgb"].hw_drivers.items()}
                        b_ = {c: [hw_value(d) for d in ds] for c, ds in tw.hw_drivers.items()}
                        if any(abs(x - y) > 0.03 for c in a_ for x, y in zip(a_[c], b_[c])):
                            v("hardware-differs-from-twin", "l_rgb (lower entry set, then removed under a fading-out entry) shows "
                              "%r, its twin which never had that entry shows %r; stacks %r / %r" % (
                                  a_, b_, [(e.key, e.priority) for e in m.lights["l_rgb"].stack],
                                  [(e.key, e.priority) for e in tw.stack]))
                elif k == "clear":
                    n = o[1]
                    structural[n] = now
                    exempt_until[n] = max(exempt_until[n], last_fade_end[n] + 0.1)
                    m.lights[n].clear_stack()
                    model[n].clear()
                    involved[n].append(RGBColor("off"))
                elif k == "advance":
                    rig.advance(o[1] / 1000.0)
                elif k == "settle":
                    rig.advance(3.0)
                    check_quiescent("3 s after the last operation")
                    classes.add("quiescent-point")
                rig.run_ready()
            except Exception as e:   # pylint: disable=broad-except
                import traceback
                v("exception:" + type(e).__name__, "operation %r raised %r\n%s" % (o, e, traceback.format_exc()[-900:]))
                break
            if rig.exceptions:
                v("loop-exception", "exception reached the loop after %r: %s" % (o, rig.exception_summaries()[:2]))
            for n in LIGHTS:
                check_hull(n, "after %r" % (o,))
            if k == "advance" and o[1] >= 10:
                rig.advance(0.021)     # let stepwise backends take their next step
                for n in LIGHTS:
                    check_tracking(n, "21 ms after %r" % (o,))
        if not vio:
            rig.advance(3.0)
            check_quiescent("at end, 3 s after the last operation")
            if rig.exceptions:
                v("loop-exception", "exception reached the loop: %s" % rig.exception_summaries()[:2])
    finally:
        if state and state.get("system"):
            state["system"].stop()
        rig.stop()
    classes.add("backend-" + case["backend"])
    nontrivial = bool(classes & {"command-inside-fade", ">=3-priorities", "fade-out-removal"})
    return Result(vio or None, sorted(classes), nontrivial)


SUBCHECKS = [
    SubCheck("stack", lambda: case_strategy, check, quick=4000, thorough=60000, procs_quick=8),
]
