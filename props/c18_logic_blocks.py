"""C18 — Logic blocks count, accrue and sequence exactly as specified."""
import copy
import functools

from hypothesis import strategies as st

from vlib.engine import Result, SubCheck, violation
from vlib.rig import Rig

PROPERTY = "C18"
LEVEL = "exploration"
RULE = ("A case is one generated logic block (counter: direction, interval, start, completion value, hit window, "
        "reset/disable on complete, timeout, enable_events/start_enabled; accrual or sequence: 2-4 steps with events "
        "shared between steps), system-wide or inside a non-game mode, and a history of hit/step events, enable, "
        "disable, reset, restart, add/subtract/jump and integer-ms gaps chosen around the window and timeout. "
        "Non-trivial = a hit while disabled or completed, a hit inside the window, a completion followed by further "
        "hits, or an operation at the window-end/timeout instant. Distinct = distinct case hash.")
ASSUMPTIONS = [
    "an operation at exactly the instant a window ends or a timeout expires may be ordered either way (the model "
    "keeps both successor states and requires the observation to match one)",
    "system-wide blocks start enabled iff they have no enable_events (start_enabled is only honoured in modes): "
    "the statement is silent, the model follows the code",
    "a step event shared by the last and the first step of a sequence with reset_on_complete advances the fresh "
    "round as well (handlers run highest step first and each sees the current state)",
    "hits posted while the owning mode is stopped are outside the domain",
]

ADV = [0, 1, 10, 49, 50, 51, 99, 100, 101, 199, 200, 201, 499, 500, 501]


@st.composite
def counter_case(draw):
    direction = draw(st.sampled_from(["up", "down"]))
    start = draw(st.sampled_from([0, 0, 5, -3]))
    interval = draw(st.sampled_from([1, 1, 2, 3, -2]))
    step = abs(interval) * (1 if direction == "up" else -1)
    ccv = draw(st.one_of(st.none(), st.integers(1, 5).map(lambda k: start + k * step),
                         st.integers(1, 8).map(lambda k: start + (k if direction == "up" else -k))))
    cfg = {
        "type": "counter", "direction": direction, "count_interval": interval, "starting_count": start,
        "count_complete_value": ccv,
        "multiple_hit_window": draw(st.sampled_from([0, 0, 50, 100])),
        "reset_on_complete": draw(st.booleans()), "disable_on_complete": draw(st.booleans()),
        "logic_block_timeout": draw(st.sampled_from([0, 0, 200, 500])),
        "enable_events": draw(st.booleans()), "start_enabled": draw(st.sampled_from([None, None, True, False])),
        "in_mode": draw(st.booleans()),
    }
    op = st.one_of(
        st.just(["hit"]), st.just(["hit"]), st.just(["hit"]), st.just(["hit"]),
        st.just(["enable"]), st.just(["disable"]), st.just(["reset"]), st.just(["restart"]),
        st.just(["add"]), st.just(["subtract"]), st.just(["jump"]),
        st.tuples(st.just("advance"), st.sampled_from(ADV)).map(list),
        st.tuples(st.just("advance"), st.sampled_from(ADV)).map(list),
        st.tuples(st.just("mode_restart"), st.sampled_from([0, 10, 60, 300])).map(list),
    )
    return {"cfg": cfg, "ops": draw(st.lists(op, min_size=3, max_size=40))}


@st.composite
def steps_case(draw):
    typ = draw(st.sampled_from(["accrual", "sequence"]))
    n = draw(st.integers(2, 4))
    evs = ["ea", "eb", "ec", "ed"]
    steps = [sorted(set(draw(st.lists(st.sampled_from(evs), min_size=1, max_size=2)))) for _ in range(n)]
    cfg = {
        "type": typ, "steps": steps,
        "reset_on_complete": draw(st.booleans()), "disable_on_complete": draw(st.booleans()),
        "logic_block_timeout": draw(st.sampled_from([0, 0, 200, 500])),
        "enable_events": draw(st.booleans()), "start_enabled": draw(st.sampled_from([None, None, True, False])),
        "in_mode": draw(st.booleans()),
    }
    op = st.one_of(
        st.tuples(st.just("step"), st.sampled_from(evs)).map(list),
        st.tuples(st.just("step"), st.sampled_from(evs)).map(list),
        st.tuples(st.just("step"), st.sampled_from(evs)).map(list),
        st.just(["enable"]), st.just(["disable"]), st.just(["reset"]), st.just(["restart"]),
        st.tuples(st.just("advance"), st.sampled_from(ADV)).map(list),
        st.tuples(st.just("mode_restart"), st.sampled_from([0, 10, 60, 300])).map(list),
    )
    return {"cfg": cfg, "ops": draw(st.lists(op, min_size=3, max_size=40))}


def device_config(cfg):
    d = {"reset_on_complete": cfg["reset_on_complete"], "disable_on_complete": cfg["disable_on_complete"],
         "disable_events": "dis_b", "reset_events": "rst_b", "restart_events": "rsr_b"}
    if cfg["logic_block_timeout"]:
        d["logic_block_timeout"] = "%dms" % cfg["logic_block_timeout"]
    if cfg["enable_events"]:
        d["enable_events"] = "en_b"
    if cfg["start_enabled"] is not None:
        d["start_enabled"] = cfg["start_enabled"]
    if cfg["type"] == "counter":
        d.update({"count_events": "hit_b", "direction": cfg["direction"], "count_interval": cfg["count_interval"],
                  "starting_count": cfg["starting_count"],
                  "control_events": [{"action": "add", "event": "add_b", "value": 2},
                                     {"action": "subtract", "event": "sub_b", "value": 1},
                                     {"action": "jump", "event": "jump_b", "value": 4}]})
        if cfg["count_complete_value"] is not None:
            d["count_complete_value"] = cfg["count_complete_value"]
        if cfg["multiple_hit_window"]:
            d["multiple_hit_window"] = "%dms" % cfg["multiple_hit_window"]
        return "counters", d
    d["events"] = [", ".join(s) for s in cfg["steps"]]
    return ("accruals" if cfg["type"] == "accrual" else "sequences"), d


# ---- reference model: a set of possible states ------------------------------------------------------
class S:
    """One possible state of the block."""

    def __init__(self, cfg):
        self.cfg = cfg
        self.enabled = False
        self.completed = False
        self.value = self.start()
        self.win_end = None
        self.to_due = None
        self.out = []       # events produced by the current operation
        self.flags = set()

    def clone(self):
        n = S.__new__(S)
        n.cfg = self.cfg
        n.enabled, n.completed = self.enabled, self.completed
        n.value = copy.copy(self.value)
        n.win_end, n.to_due = self.win_end, self.to_due
        n.out = list(self.out)
        n.flags = set(self.flags)
        return n

    def key(self):
        return (self.enabled, self.completed, repr(self.value), self.win_end, self.to_due, repr(self.out))

    def start(self):
        c = self.cfg
        if c["type"] == "counter":
            return c["starting_count"]
        if c["type"] == "accrual":
            return [False] * len(c["steps"])
        return 0

    # -- operations at time T (ms)
    def timer_start(self, T):
        if self.cfg["logic_block_timeout"]:
            self.to_due = T + self.cfg["logic_block_timeout"]

    def enable(self, T):
        self.enabled = True
        self.timer_start(T)

    def disable(self, T):
        self.enabled = False
        self.to_due = None

    def reset(self, T):
        self.completed = False
        self.value = self.start()
        self.timer_start(T)

    def restart(self, T):
        self.reset(T)
        self.enable(T)

    def complete(self, T):
        if self.completed:
            self.flags.add("complete-while-completed")
            return
        self.completed = True
        self.to_due = None
        self.out.append(("complete",))
        self.flags.add("completion")
        if self.cfg["reset_on_complete"]:
            self.reset(T)
        if self.cfg["disable_on_complete"]:
            self.disable(T)

    def is_complete_value(self):
        c = self.cfg
        ccv = c.get("count_complete_value")
        if ccv is None:
            return False
        return self.value >= ccv if c["direction"] == "up" else self.value <= ccv

    def hit(self, T):
        c = self.cfg
        if not self.enabled:
            self.flags.add("hit-while-disabled")
            return
        if self.completed:
            self.flags.add("hit-while-completed")
        if self.win_end is not None:
            self.flags.add("hit-inside-window")
            return
        step = abs(c["count_interval"]) * (1 if c["direction"] == "up" else -1)
        self.value += step
        self.out.append(("hit", self.value))
        if self.is_complete_value():
            self.complete(T)
        if c["multiple_hit_window"]:
            self.win_end = T + c["multiple_hit_window"]

    def control(self, what, T):
        if what == "add":
            self.value += 2
        elif what == "subtract":
            self.value -= 1
        else:
            self.value = 4
        if self.is_complete_value():
            self.complete(T)

    def step_event(self, ev, T):
        c = self.cfg
        n = len(c["steps"])
        if c["type"] == "accrual":
            for i in range(n):
                if ev in c["steps"][i]:
                    if not self.enabled:
                        self.flags.add("hit-while-disabled")
                        continue
                    if self.completed:
                        self.flags.add("hit-while-completed")
                    if not self.value[i]:
                        self.value[i] = True
                        self.out.append(("hit", i))
                    if all(self.value):
                        self.complete(T)
        else:
            for i in reversed(range(n)):    # higher steps are registered with higher priority
                if ev in c["steps"][i]:
                    if not self.enabled:
                        self.flags.add("hit-while-disabled")
                        continue
                    if i != self.value:
                        self.flags.add("out-of-order-step")
                        continue
                    if self.completed:
                        self.flags.add("hit-while-completed")
                    self.value += 1
                    self.out.append(("hit", self.value))
                    if self.value >= n:
                        self.complete(T)

    def timeout(self, T):
        self.out.append(("timeout",))
        self.flags.add("timeout-fired")
        self.to_due = None
        self.reset(T)

    def observable(self):
        return (bool(self.enabled), bool(self.completed), copy.copy(self.value))


def advance_states(states, T0, T1):
    """Let time pass from T0 to T1 (ms): timers strictly before T1 fire, timers at exactly T1 may or may not."""
    res = []
    todo = list(states)
    guard = 0
    while todo:
        guard += 1
        if guard > 2000:
            break
        s = todo.pop()
        due = [(t, k) for t, k in ((s.win_end, "win"), (s.to_due, "to")) if t is not None and t <= T1]
        if not due:
            res.append(s)
            continue
        due.sort()
        t, k = due[0]
        if t == T1:
            # coincidence with the next operation: both orders are possible
            res.append(s)
            s2 = s.clone()
            s2.flags.add("op-at-timer-instant")
            _fire(s2, k, t)
            todo.append(s2)
            # after firing at == T1 nothing else can be strictly earlier; loop handles further coincidences
        else:
            # two timers at the same instant: either order
            same = [d for d in due if d[0] == t]
            if len(same) > 1:
                s3 = s.clone()
                _fire(s3, same[1][1], t)
                todo.append(s3)
            _fire(s, k, t)
            todo.append(s)
    uniq = {}
    for s in res:
        uniq.setdefault(s.key(), s)
    return list(uniq.values())


def _fire(s, k, t):
    if k == "win":
        s.win_end = None
    else:
        s.timeout(t)


def apply_op(states, op, T):
    out = []
    for s in states:
        # a timer due exactly now may fire before or after the operation is processed
        variants = [s]
        for t, k in ((s.win_end, "win"), (s.to_due, "to")):
            if t is not None and t <= T:
                new = []
                for v in variants:
                    new.append(v)
                    v2 = v.clone()
                    v2.flags.add("op-at-timer-instant")
                    _fire(v2, k, T)
                    new.append(v2)
                variants = new
        for v in variants:
            v = v.clone() if v is s else v
            kind = op[0]
            if kind == "hit":
                v.hit(T)
            elif kind == "step":
                v.step_event(op[1], T)
            elif kind in ("enable", "disable", "reset", "restart"):
                getattr(v, kind)(T)
            elif kind in ("add", "subtract", "jump"):
                v.control(kind, T)
            # timers that were due now and did not fire before the operation fire right after it
            for t, k in ((v.win_end, "win"), (v.to_due, "to")):
                if t is not None and t <= T:
                    _fire(v, k, T)
            out.append(v)
    uniq = {}
    for s in out:
        uniq.setdefault(s.key(), s)
    return list(uniq.values())


EVENT_OF = {"hit": "hit_b", "enable": "en_b", "disable": "dis_b", "reset": "rst_b", "restart": "rsr_b", "add": "add_b",
            "subtract": "sub_b", "jump": "jump_b"}


def check(case):
    cfg = case["cfg"]
    section, dcfg = device_config(cfg)
    kwargs = {}
    if cfg["in_mode"]:
        kwargs["mode_patches"] = {"m1": {section: {"b": dcfg}}}
    else:
        kwargs["patches"] = {section: {"b": dcfg}}
    vio = []
    flags = set()
    with Rig("timers", **kwargs) as rig:
        m = rig.machine
        got = []

        def rec(kind, **kwargs):
            kw = kwargs
            if kind == "hit":
                got.append(("hit", kw.get("count", kw.get("step"))))
            else:
                got.append((kind,))
        m.events.add_handler("logicblock_b_hit", functools.partial(rec, "hit"))
        m.events.add_handler("logicblock_b_complete", functools.partial(rec, "complete"))
        m.events.add_handler("b_timeout", functools.partial(rec, "timeout"))
        chits = []
        if cfg["type"] == "counter":
            m.events.add_handler("counter_b_hit", lambda **kwargs: chits.append(kwargs.get("count")))
        base = rig.now
        s0 = S(cfg)
        T = 0
        if cfg["in_mode"]:
            start_enabled = cfg["start_enabled"] if cfg["start_enabled"] is not None else not cfg["enable_events"]
            rig.post("start_m1")
            if start_enabled:
                s0.enable(0)
        else:
            if not cfg["enable_events"]:
                s0.enable(0)        # enabled during boot: its timeout (if any) started at boot time
                if cfg["logic_block_timeout"]:
                    s0.to_due = None    # boot-time timer: unknown phase -> restart it deterministically below
        rig.run_ready()
        dev = getattr(m, section)["b"]
        if not cfg["in_mode"] and cfg["logic_block_timeout"] and s0.enabled:
            # put the block into a known timer phase through its own public operation
            dev.disable()
            dev.enable()
            rig.run_ready()
            s0.to_due = cfg["logic_block_timeout"]
            base = rig.now
        got.clear()
        del chits[:]
        states = [s0]
        for op in case["ops"]:
            before = list(got)
            del before
            got.clear()
            for s in states:
                s.out = []
            if op[0] == "mode_restart":
                if not cfg["in_mode"]:
                    continue
                # the owning mode stops and starts again: a block of a non-game mode starts afresh (value, enabled
                # flag, no hit window open, timeout re-armed from now)
                m.events.post("stop_m1")
                rig.advance(op[1] / 1000.0)
                T += op[1]
                m.events.post("start_m1")
                rig.run_ready()
                fresh = S(cfg)
                start_enabled = cfg["start_enabled"] if cfg["start_enabled"] is not None else not cfg["enable_events"]
                if start_enabled:
                    fresh.enable(T)
                fresh.flags = set().union(*[s.flags for s in states]) | {"mode-restart"}
                fresh.out = []
                states = [fresh]
                got.clear()
                dev = getattr(m, section)["b"]
            elif op[0] == "advance":
                rig.advance(op[1] / 1000.0)
                T1 = T + op[1]
                states = advance_states(states, T, T1)
                T = T1
            else:
                if op[0] == "enable" and not cfg["enable_events"]:
                    dev.enable()        # no enable event configured: the documented manual call
                else:
                    m.events.post(op[1] if op[0] == "step" else EVENT_OF[op[0]])
                rig.run_ready()
                states = apply_op(states, op, T)
            obs = (bool(dev.enabled), bool(dev.completed), copy.copy(dev.value))
            match = [s for s in states if s.out == got and s.observable() == obs]
            if not match:
                exp = states[0]
                what = "events" if all(s.out != got for s in states) else "state"
                sig = "%s:%s:%s" % (cfg["type"], what, _diff_kind(exp, got, obs))
                vio.append(violation(sig, "%s block after %r at T=%d ms: events %r and (enabled, completed, value)=%r; the "
                                     "reference allows %s" % (cfg["type"], op, T, got, obs,
                                                              [(s.out, s.observable()) for s in states[:3]])))
                break
            states = match
            for s in states:
                flags |= s.flags
        if not vio and cfg["type"] == "counter":
            pass
        exc = rig.exception_summaries()
    if exc:
        vio.append(violation("loop-exception", "exception reached the loop: %s" % exc[:2]))
    classes = sorted(flags) + [cfg["type"], "in-mode" if cfg["in_mode"] else "system-wide"]
    nontrivial = bool(flags & {"hit-while-disabled", "hit-while-completed", "hit-inside-window", "op-at-timer-instant",
                               "out-of-order-step", "complete-while-completed"}) or (
        "completion" in flags and any(o[0] in ("hit", "step") for o in case["ops"][-3:]))
    return Result(vio or None, classes, nontrivial)


def _diff_kind(exp, got, obs):
    eo = exp.out
    if [e[0] for e in eo].count("complete") != [g[0] for g in got].count("complete"):
        return "complete-count"
    if [e for e in eo if e[0] == "hit"] != [g for g in got if g[0] == "hit"]:
        return "hit-events"
    if [e[0] for e in eo].count("timeout") != [g[0] for g in got].count("timeout"):
        return "timeout"
    eobs = exp.observable()
    for i, n in enumerate(("enabled", "completed", "value")):
        if eobs[i] != obs[i]:
            return n
    return "order"


SUBCHECKS = [
    SubCheck("counter", counter_case, check, quick=3000, thorough=60000, procs_quick=6),
    SubCheck("steps", steps_case, check, quick=2000, thorough=40000, procs_quick=4),
]
