"""Event "handler programs": generator, interpreter against the real EventManager, and log oracle.

Shared by C01 (plain/boolean/relay dispatch) and C02 (queue events).  The interpreter executes a generated
program through the public API only (add_handler, remove_*, replace_handler, post*, DelayManager, switch
handlers) and records a global log; the oracle replays the registry from the log's REG/UNREG entries and
checks the clauses of the property statements on the log.  See DESIGN.md appendix A.1.
"""
import functools
from collections import deque

from hypothesis import strategies as st

NEV = 5          # event names e0..e4
SENT_PRIO = -1000

# --------------------------------------------------------------------------------------------------
# strategies
kwvals = st.integers(0, 3)
kw = st.dictionaries(st.sampled_from("abc"), kwvals, max_size=2)
# (conditions may also read global state - the machine variable cx, which handlers change: a condition is evaluated when
# its handler's turn comes, not when the dispatch begins)
CONDS = [None, None, None, "a>1", "a==b", "b<2", "c!=0", "a>=0"]
CX_CONDS = ["machine.cx==0", "machine.cx>0"]       # plain/boolean/relay programs only (queue events: C02 sub-check qcond)
RETS = [None, None, None, False, True, {"a": 3}, {"b": 0, "c": 2}, {"d": 1}, "x", 0]
# blocking (what shots with `block: true` and the block_event_player do): a handler returns a minimum priority, handlers
# registered with a blocking facility and a lower priority are skipped for the rest of the dispatch
MP_RETS = [{"_min_priority": {"all": 2}}, {"_min_priority": {"all": 0, "fa": 1}}, {"_min_priority": {"all": -1, "fb": 3}},
           {"_min_priority": {"all": 0}}]
FACILITIES = [None, None, "fa", "fa", "fb"]


def _blocked(mp, facility, prio):
    """EventManager's documented blocking rule, restated."""
    if mp is None or not facility:
        return False
    return mp["all"] > prio or (facility in mp and mp[facility] > prio)


def _cond_eval(cond, kwargs):
    """Independent evaluation of the tiny condition language; a missing name makes the condition false."""
    if cond is None:
        return True
    if "machine.cx" in cond:
        return bool(eval(cond.replace("machine.cx", "cx"), {"__builtins__": {}}, {"cx": kwargs.get("__cx__", 0)}))   # pylint: disable=eval-used
    env = {}
    for n in "abc":
        if n in cond:
            if n not in kwargs:
                return False
            env[n] = kwargs[n]
    return bool(eval(cond, {"__builtins__": {}}, env))   # pylint: disable=eval-used


def actions(depth, nspecs, queue=False, max_size=3, only_posts=False):
    kinds = [None, None, "boolean", "relay"] + (["queue", "queue"] if queue else [])
    if depth <= 0:
        cb = st.sampled_from([None, None, []])
    else:
        cb = st.one_of(st.none(), st.just([]), st.deferred(lambda: actions(depth - 1, nspecs, queue, 2)))
    post = st.tuples(st.just("post"), st.integers(0, NEV - 1), st.sampled_from(kinds), kw, cb)
    if only_posts:
        return st.lists(post, min_size=1, max_size=max_size).map(lambda l: [list(a) for a in l])
    spec_i = st.integers(0, nspecs - 1)
    alts = [post, post, post,
            st.tuples(st.just("add"), spec_i),
            st.tuples(st.just("rm_key"), st.integers(0, 50)),
            st.tuples(st.just("rm_event"), spec_i),
            st.tuples(st.just("rm_method"), spec_i),
            st.tuples(st.just("replace"), spec_i)]
    if not queue:
        alts += [st.tuples(st.just("setvar"), st.integers(0, 2))]
    if not queue:
        # futures: wait_for_event / wait_for_any_event and post_async / post_relay_async
        alts += [st.tuples(st.just("wait_any"), st.lists(st.integers(0, NEV - 1), min_size=1, max_size=3, unique=True)),
                 st.tuples(st.just("post_async"), st.integers(0, NEV - 1), st.sampled_from([None, "relay"]), kw)]
    if depth > 0:
        inner = st.deferred(lambda: actions(depth - 1, nspecs, queue, 2))
        alts += [st.tuples(st.just("delay_add"), st.integers(0, 1), st.sampled_from([1, 10, 50, 5000]), inner),
                 st.tuples(st.just("run_now"), st.integers(0, 1)),
                 st.tuples(st.just("run_now"), st.integers(0, 1)),
                 st.tuples(st.just("hit_switch"), inner)]
    return st.lists(st.one_of(alts), max_size=max_size).map(lambda l: [list(a) for a in l])


def spec(nspecs, queue=False):
    d = {
        "event": st.integers(0, NEV - 1),
        "prio": st.integers(-3, 3),
        "kwargs": kw,
        "cond": st.sampled_from(CONDS if queue else CONDS + CX_CONDS),
        "script": actions(2, nspecs, queue),
        "ret": st.sampled_from(RETS if queue else RETS + MP_RETS + MP_RETS),
    }
    if not queue:
        d["facility"] = st.sampled_from(FACILITIES)
    if queue:
        # wait behaviour for queue events: None (sync) | ["delay", ms] (0 = wait+clear inside the handler)
        # | ["event", ev] (clear when that event is next dispatched) | ["async", ms] (add_async_handler)
        # | ["nest", ev, [waits...]] (post queue event ev, clear when it completes)
        d["wait"] = st.one_of(
            st.none(), st.none(),
            st.tuples(st.just("delay"), st.sampled_from([0, 0, 1, 5, 10, 20, 50])).map(list),
            st.tuples(st.just("async"), st.sampled_from([0, 1, 10, 30])).map(list),
            # an async handler whose awaited future is cancelled after ms: its wait must be released all the same
            st.tuples(st.just("async"), st.sampled_from([0, 1, 10, 30]), st.just("cancelled")).map(list),
            st.tuples(st.just("nest"), st.integers(0, NEV - 1)).map(list),
        )
    return st.fixed_dictionaries(d)


def top_ops(nspecs, queue=False):
    acts = actions(2, nspecs, queue)
    posts = actions(2, nspecs, queue, max_size=3, only_posts=True)
    op = st.one_of(
        st.tuples(st.just("do"), posts),
        st.tuples(st.just("do"), posts),
        st.tuples(st.just("do"), acts),
        st.tuples(st.just("delay"), st.sampled_from([0, 1, 10, 50]), acts),
        st.tuples(st.just("switch"), st.integers(0, 1), acts),
        st.tuples(st.just("advance"), st.sampled_from([0, 1, 5, 10, 30, 100])),
    )
    return st.lists(op, min_size=2, max_size=8).map(lambda l: [list(o) for o in l])


@st.composite
def program(draw, queue=False):
    n = draw(st.integers(1, 10))
    specs = draw(st.lists(spec(n, queue), min_size=n, max_size=n))
    initial = draw(st.lists(st.integers(0, n - 1), min_size=min(n, 3), max_size=12))     # prior registrations (duplicates allowed)
    prior = draw(actions(0, n, queue, max_size=4))                    # prior history of removals/adds
    prior = [a for a in prior if a[0] != "post"]
    return {"specs": specs, "initial": initial, "prior": prior, "ops": draw(top_ops(n, queue)),
            "sentinels": draw(st.sampled_from([True, True, True, False])), "budget": 40}


# --------------------------------------------------------------------------------------------------
class Interp:
    """Runs a program against rig.machine.events and records the log."""

    def __init__(self, rig, case):
        self.rig = rig
        self.machine = rig.machine
        self.ev = rig.machine.events
        self.case = case
        self.specs = case["specs"]
        self.log = []
        self.n_pid = 0
        self.n_inv = 0
        self.n_inst = 0
        self.budget = case.get("budget", 40)
        self.skipped_posts = 0
        self.skipped_adds = 0
        self.live = []            # mirror of registrations made by the program: dicts(inst, spec, key)
        self.stack = []           # running invocations (ids)
        self.ctx = ("top", None)
        self.fns = [self._mk_fn(i) for i in range(len(self.specs))]
        self.afns = [self._mk_async_fn(i) for i in range(len(self.specs))]
        self.pending_clears = 0
        self.sleeping = 0
        self.waiters_on_event = {}
        self.n_waits = 0
        self.async_futs = {}
        self.machine.variables.set_machine_var("cx", 0)
        if case.get("sentinels", True):
            for e in range(NEV):
                self.ev.add_handler("e%d" % e, functools.partial(self._sentinel, e), SENT_PRIO)
        from mpf.core.delays import DelayManager
        self.delay = DelayManager(self.machine)
        self.switch_scripts = {0: [], 1: []}
        sc = self.machine.switch_controller
        sc.add_switch_handler("s_ev0", functools.partial(self._switch_cb, 0), state=1, ms=0)
        sc.add_switch_handler("s_ev1", functools.partial(self._switch_cb, 1), state=1, ms=50)

    # -- logging helpers
    def _t(self):
        return round(self.rig.now * 1000, 3)

    def _log(self, *entry):
        if not getattr(self, "ended", False):
            self.log.append(list(entry))

    # -- handlers
    def _strip(self, kwargs):
        return {k: v for k, v in kwargs.items() if k != "queue"}

    def _sentinel(self, e, **kwargs):
        inv = self.n_inv
        self.n_inv += 1
        self._log("INV_START", inv, "S%d" % e, kwargs.get("pid"), self._strip(kwargs), self._t())
        self._log_async_state(inv)
        if self.stack:
            self._log("NESTED", inv, list(self.stack))
        self._log("INV_END", inv, None, None)

    def _log_async_state(self, inv):
        """Which post_async futures are already resolved when this handler starts (seen synchronously)."""
        if self.async_futs:
            done = [pid for pid, f in self.async_futs.items() if f.done()]
            if done:
                self._log("ADONE", inv, done)

    def _mk_fn(self, i):
        def handler(**kwargs):
            return self._invoke(i, kwargs)
        handler.__name__ = "h%d" % i
        return handler

    def _mk_async_fn(self, i):
        async def ahandler(**kwargs):
            import asyncio
            inv = self.n_inv
            self.n_inv += 1
            sp = self.specs[i]
            pid = kwargs.get("pid")
            self._log("INV_START", inv, i, pid, self._strip(kwargs), self._t())
            self._log("WAIT", inv, pid, self._t())
            old = self.ctx
            self.ctx = ("inv", inv, pid)
            self.stack.append(inv)
            try:
                for a in sp["script"]:
                    self.do(a)
            finally:
                self.stack.pop()
                self.ctx = old
            self._log("INV_END", inv, None, None)
            self.sleeping += 1
            try:
                if len(sp["wait"]) > 2:
                    loop = asyncio.get_event_loop()
                    fut = loop.create_future()
                    loop.call_later(sp["wait"][1] / 1000.0, fut.cancel)
                    try:
                        await fut
                    except asyncio.CancelledError:
                        self._log("CLEAR", inv, pid, self._t())
                        raise
                else:
                    await asyncio.sleep(sp["wait"][1] / 1000.0)
            finally:
                self.sleeping -= 1
            self._log("CLEAR", inv, pid, self._t())
        ahandler.__name__ = "ah%d" % i
        return ahandler

    def _invoke(self, i, kwargs):
        inv = self.n_inv
        self.n_inv += 1
        sp = self.specs[i]
        pid = kwargs.get("pid")
        self._log("INV_START", inv, i, pid, self._strip(kwargs), self._t())
        self._log_async_state(inv)
        if self.stack:
            self._log("NESTED", inv, list(self.stack))
        old = self.ctx
        self.ctx = ("inv", inv, pid)
        self.stack.append(inv)
        try:
            for a in sp["script"]:
                self.do(a)
            queue = kwargs.get("queue")
            wait = sp.get("wait")
            if queue is not None and wait is not None and wait[0] != "async":
                self._do_wait(inv, pid, queue, wait)
        finally:
            self.stack.pop()
            self.ctx = old
        ret = sp["ret"]
        if isinstance(ret, dict):
            ret = dict(ret)
        self._log("INV_END", inv, repr(ret), ret if isinstance(ret, dict) else None)
        return ret

    def _do_wait(self, inv, pid, queue, wait):
        queue.wait()
        self._log("WAIT", inv, pid, self._t())
        self.pending_clears += 1

        def clear(**kwargs):
            del kwargs
            self.pending_clears -= 1
            self._log("CLEAR", inv, pid, self._t())
            queue.clear()

        if wait[0] == "delay":
            if wait[1] == 0:
                clear()
            else:
                self.machine.clock.loop.call_later(wait[1] / 1000.0, clear)
        elif wait[0] == "nest":
            if self.budget <= 0:
                clear()
                return
            self.budget -= 1
            npid = self.n_pid
            self.n_pid += 1
            self._log("POST", npid, wait[1], "queue", list(self.ctx), True, {"pid": npid}, self._t())

            def nested_done(**kwargs):
                self._log("CB", npid, self._strip(kwargs), self._t())
                clear()
            self.ev.post_queue("e%d" % wait[1], nested_done, pid=npid)

    def _cb(self, _pid, _script, **kwargs):
        self._log("CB", _pid, self._strip(kwargs), self._t())
        old = self.ctx
        self.ctx = ("cb", _pid, None)
        try:
            for a in _script:
                self.do(a)
        finally:
            self.ctx = old

    def _delay_cb(self, _script, **kwargs):
        del kwargs
        old = self.ctx
        if not self.stack:      # run_now() from inside a handler keeps the handler's context
            self.ctx = ("delay", None)
        try:
            for a in _script:
                self.do(a)
        finally:
            self.ctx = old

    def _switch_cb(self, which, **kwargs):
        del kwargs
        old = self.ctx
        if not self.stack:
            self.ctx = ("switch%d" % which, None)
        try:
            for a in self.switch_scripts[which]:
                self.do(a)
        finally:
            self.ctx = old

    # -- actions
    def _evname(self, sp):
        name = "e%d" % sp["event"]
        if sp["cond"]:
            name += "{%s}" % sp["cond"]
        return name

    def do(self, a):
        kind = a[0]
        if kind == "post":
            _, e, typ, kwargs, cb = a
            if self.budget <= 0:
                self.skipped_posts += 1
                return
            self.budget -= 1
            pid = self.n_pid
            self.n_pid += 1
            kwargs = dict(kwargs)
            kwargs["pid"] = pid
            has_cb = cb is not None or typ == "queue"
            self._log("POST", pid, e, typ, list(self.ctx), has_cb, dict(kwargs), self._t())
            callback = functools.partial(self._cb, pid, cb or []) if has_cb else None
            name = "e%d" % e
            if typ is None:
                self.ev.post(name, callback, **kwargs)
            elif typ == "boolean":
                self.ev.post_boolean(name, callback, **kwargs)
            elif typ == "relay":
                self.ev.post_relay(name, callback, **kwargs)
            else:
                self.ev.post_queue(name, callback, **kwargs)
        elif kind == "wait_any":
            if self.n_waits >= 8:
                return
            wid = self.n_waits
            self.n_waits += 1
            names = ["e%d" % e for e in a[1]]
            self._log("WAITREG", wid, list(a[1]), list(self.ctx))
            fut = self.ev.wait_for_event(names[0]) if len(names) == 1 else self.ev.wait_for_any_event(names)

            def waited(f, wid=wid):
                r = f.result()
                self._log("WAITDONE", wid, r.get("pid"), r.get("event"), self._t())
            fut.add_done_callback(waited)
        elif kind == "post_async":
            _, e, typ, kwargs = a
            if self.budget <= 0:
                self.skipped_posts += 1
                return
            self.budget -= 1
            pid = self.n_pid
            self.n_pid += 1
            kwargs = dict(kwargs)
            kwargs["pid"] = pid
            self._log("POST", pid, e, typ, list(self.ctx), False, dict(kwargs), self._t())
            self._log("ASYNCPOST", pid)
            fut = (self.ev.post_relay_async if typ == "relay" else self.ev.post_async)("e%d" % e, **kwargs)

            def done(f, pid=pid):
                self._log("ASYNCDONE", pid, self._strip(f.result()), self._t())
            fut.add_done_callback(done)
            self.async_futs[pid] = fut
        elif kind == "setvar":
            self.machine.variables.set_machine_var("cx", a[1])
            self._log("SETVAR", a[1], list(self.ctx))
        elif kind == "add":
            self._add(a[1])
        elif kind == "rm_key":
            if self.live:
                ent = self.live[a[1] % len(self.live)]
                self.ev.remove_handler_by_key(ent["key"])
                self.live.remove(ent)
                self._log("UNREG", [ent["inst"]], list(self.ctx))
        elif kind == "rm_event":
            sp = self.specs[a[1]]
            fn = self._fn_for(a[1])
            self.ev.remove_handler_by_event("e%d" % sp["event"], fn)
            self._unreg_spec(a[1])
        elif kind == "rm_method":
            self.ev.remove_handler(self._fn_for(a[1]))
            self._unreg_spec(a[1])
        elif kind == "replace":
            sp = self.specs[a[1]]
            if sp["cond"] or self._is_async(a[1]) or len(self.live) >= 30 or sp.get("facility"):
                return      # replace_handler is documented for plain event names (and takes no blocking facility)
            self._unreg_spec(a[1])
            key = self.ev.replace_handler("e%d" % sp["event"], self.fns[a[1]], sp["prio"], **sp["kwargs"])
            inst = self.n_inst
            self.n_inst += 1
            self.live.append({"inst": inst, "spec": a[1], "key": key})
            self._log("REG", inst, a[1], list(self.ctx))
        elif kind == "delay_add":
            self._log("DELAY_ADD", a[1], list(self.ctx))
            self.delay.add(a[2], functools.partial(self._delay_cb, a[3]), name="d%d" % a[1])
        elif kind == "run_now":
            self._log("RUN_NOW", a[1], bool(self.delay.check("d%d" % a[1])), list(self.ctx))
            self.delay.run_now("d%d" % a[1])
        elif kind == "hit_switch":
            self._log("HIT_SWITCH", list(self.ctx))
            self.switch_scripts[0] = a[1]
            self.machine.switch_controller.process_switch("s_ev0", 1, logical=True)
            self.machine.switch_controller.process_switch("s_ev0", 0, logical=True)
        else:
            raise ValueError(a)

    def _is_async(self, i):
        w = self.specs[i].get("wait")
        return bool(w) and w[0] == "async"

    def _fn_for(self, i):
        return self.fns[i]

    def _unreg_spec(self, i):
        if self._is_async(i):
            return      # async handlers are registered through a partial; method-based removal cannot name them
        gone = [e for e in self.live if e["spec"] == i]
        if gone:
            for e in gone:
                self.live.remove(e)
            self._log("UNREG", [e["inst"] for e in gone], list(self.ctx))

    def _add(self, i):
        sp = self.specs[i]
        if len(self.live) >= 30:
            self.skipped_adds += 1      # keeps a self-replicating program from growing exponentially
            return
        if self._is_async(i):
            key = self.ev.add_async_handler(self._evname(sp), self.afns[i], sp["prio"], **sp["kwargs"])
        else:
            key = self.ev.add_handler(self._evname(sp), self.fns[i], sp["prio"], sp.get("facility"), **sp["kwargs"])
        inst = self.n_inst
        self.n_inst += 1
        self.live.append({"inst": inst, "spec": i, "key": key})
        self._log("REG", inst, i, list(self.ctx))

    # -- top level
    def run(self):
        for i in self.case["initial"]:
            self._add(i)
        for a in self.case["prior"]:
            self.do(a)
        self._log("START")
        for op in self.case["ops"]:
            self._log("OP", op[0])
            if op[0] == "do":
                for a in op[1]:
                    self.do(a)
                self.rig.run_ready()
            elif op[0] == "delay":
                self.delay.add(op[1], functools.partial(self._delay_cb, op[2]))
                self.rig.advance(op[1] / 1000.0 + 0.001)
            elif op[0] == "switch":
                which = op[1]
                self.switch_scripts[which] = op[2]
                self.machine.switch_controller.process_switch("s_ev%d" % which, 1, logical=True)
                self.rig.advance(0.06 if which == 1 else 0)
                self.machine.switch_controller.process_switch("s_ev%d" % which, 0, logical=True)
                self.rig.run_ready()
            elif op[0] == "advance":
                self.rig.advance(op[1] / 1000.0)
        self._log("SETTLE")
        # bounded-liveness horizon: as long as a clear scheduled by the program itself is still outstanding keep going
        # (a self-nesting program can chain a few dozen 50 ms waits), then 2 s more than every generated wait
        # (steps off the millisecond grid and three idle observations in a row: a single look can fall exactly between
        # one handler's clear and the next handler's wait of a long chain)
        idle = 0
        for _ in range(1200):
            idle = idle + 1 if (self.pending_clears <= 0 and self.sleeping <= 0) else 0
            if idle >= 3:
                break
            self.rig.advance(0.0837)
        self.rig.advance(2.0)
        for _ in range(6):
            self.rig.advance(0)     # an event posted by a timer at this very instant is dispatched in the next loop iterations
        self._log("END")
        self.ended = True       # whatever still runs while the machine is shut down is not part of the history
        return list(self.log)


# --------------------------------------------------------------------------------------------------
class Oracle:
    """Checks the log.  Returns a list of violation dicts (possibly empty)."""

    def __init__(self, case, log, queue_checks=False):
        self.case = case
        self.specs = case["specs"]
        self.log = log
        self.vio = []
        self.queue_checks = queue_checks
        self.sentinels = case.get("sentinels", True)

    def v(self, sig, msg):
        from vlib.engine import violation
        self.vio.append(violation(sig, msg))

    def prio(self, spec):
        if isinstance(spec, str):
            return SENT_PRIO
        return self.specs[spec]["prio"]

    def run(self):
        log = self.log
        posts = {}          # pid -> dict
        invs = {}           # inv -> dict
        order = []          # INV_START order
        reg_events = []     # (pos, "REG"/"UNREG", insts, spec, ctx)
        cbs = {}
        self.cx_log = []        # (log position, value) of every change of the machine variable cx
        for pos, e in enumerate(log):
            k = e[0]
            if k == "POST":
                posts[e[1]] = {"pid": e[1], "event": e[2], "type": e[3], "ctx": e[4], "has_cb": e[5], "kwargs": e[6],
                               "pos": pos, "t": e[7], "invs": [], "cb_pos": []}
            elif k == "INV_START":
                invs[e[1]] = {"inv": e[1], "spec": e[2], "pid": e[3], "kwargs": e[4], "pos": pos, "t": e[5],
                              "end": None, "ret": None, "retdict": None, "wait": None, "clear": None}
                order.append(e[1])
                if e[3] in posts:
                    posts[e[3]]["invs"].append(e[1])
                else:
                    self.v("invocation-without-post", "handler %r invoked with unknown pid %r" % (e[2], e[3]))
            elif k == "INV_END":
                invs[e[1]]["end"] = pos
                invs[e[1]]["ret"] = e[2]
                invs[e[1]]["retdict"] = e[3]
            elif k == "NESTED":
                self.v("nested-handler", "handler invocation %d started while invocations %r were running" % (e[1], e[2]))
            elif k == "REG":
                reg_events.append((pos, "REG", [e[1]], e[2], e[3]))
            elif k == "UNREG":
                reg_events.append((pos, "UNREG", e[1], None, e[2]))
            elif k == "CB":
                if e[1] in posts:
                    posts[e[1]]["cb_pos"].append(pos)
                    posts[e[1]]["cb_kwargs"] = e[2]
                    posts[e[1]]["cb_t"] = e[3]
            elif k == "SETVAR":
                self.cx_log.append((pos, e[1]))
            elif k == "WAIT":
                invs[e[1]]["wait"] = (pos, e[3])
            elif k == "CLEAR":
                invs[e[1]]["clear"] = (pos, e[3])
        self.posts, self.invs = posts, invs
        inst_spec = {}
        for pos, kind, insts, spec, ctx in reg_events:
            if kind == "REG":
                inst_spec[insts[0]] = spec
        self.inst_spec = inst_spec
        self.reg_events = reg_events

        for pid, p in posts.items():
            self.check_dispatch(p)
        if self.sentinels and getattr(self, "order_checks", True):
            self.check_order(order)
        self.check_callbacks()
        self.check_futures()
        return self.vio

    # futures -----------------------------------------------------------------------------------
    def check_futures(self):
        """wait_for_(any_)event: the future resolves exactly once, with the kwargs of the first dispatch of one of its
        events that began after the wait was registered (a dispatch that was aborted by a False result before the
        lowest-priority handler may or may not have reached it). post_async: the future resolves exactly once, after
        every handler of the event and of everything posted from them has run."""
        log = self.log
        waits, done, apost, adone = {}, {}, {}, {}
        seen_done = []      # (invocation, post_async pids whose future was already done when it started)
        for pos, e in enumerate(log):
            if e[0] == "WAITREG":
                waits[e[1]] = {"events": e[2], "ctx": e[3], "pos": pos}
            elif e[0] == "WAITDONE":
                done.setdefault(e[1], []).append({"pid": e[2], "event": e[3], "pos": pos})
            elif e[0] == "ASYNCPOST":
                apost[e[1]] = pos
            elif e[0] == "ASYNCDONE":
                adone.setdefault(e[1], []).append({"kwargs": e[2], "pos": pos})
            elif e[0] == "ADONE":
                seen_done.append((e[1], e[2]))
        self.n_waits, self.n_waits_done, self.n_async = len(waits), len(done), len(apost)
        for wid, w in waits.items():
            inside = w["ctx"][2] if w["ctx"][0] == "inv" else None      # registered from a handler of this dispatch
            # dispatches of one of the events, in the order they began, after the registration
            cands = []
            unseen = []     # without the always-registered handlers a dispatch may run no logged handler at all: when
            #                 it began is unknown then, it is allowed to resolve the future but never has to
            for pid, p in self.posts.items():
                if p["event"] not in w["events"] or pid == inside:
                    continue
                if not p["invs"]:
                    unseen.append(pid)
                    continue
                first = self.invs[p["invs"][0]]
                if first["pos"] < w["pos"]:
                    continue
                complete = any(isinstance(self.invs[i]["spec"], str) for i in p["invs"])     # the sentinel ran: not aborted
                cands.append((first["pos"], pid, complete))
            cands.sort()
            must = next((c for c in cands if c[2]), None)
            allowed = [c[1] for c in cands if must is None or c[0] <= must[0]] + unseen
            d = done.get(wid, [])
            if len(d) > 1:
                self.v("wait-future-resolved-twice", "wait_for_any_event(%r) resolved %d times" % (w["events"], len(d)))
            elif d:
                if d[0]["pid"] not in allowed:
                    self.v("wait-future-wrong-event", "wait_for_any_event(e%r) registered at log position %d resolved with "
                           "pid %r (event %r); the dispatches that could resolve it are %r" % (
                               w["events"], w["pos"], d[0]["pid"], d[0]["event"], allowed))
                elif d[0]["event"] != "e%d" % self.posts[d[0]["pid"]]["event"]:
                    self.v("wait-future-wrong-kwargs", "wait_for_any_event(e%r) resolved with event=%r for a post of e%d" % (
                        w["events"], d[0]["event"], self.posts[d[0]["pid"]]["event"]))
            elif must is not None and self.sentinels:
                self.v("wait-future-not-resolved", "wait_for_any_event(e%r) registered at log position %d was never resolved "
                       "although e%d (pid %d) was dispatched completely afterwards" % (
                           w["events"], w["pos"], self.posts[must[1]]["event"], must[1]))
        for pid, pos in apost.items():
            d = adone.get(pid, [])
            if len(d) != 1:
                self.v("post_async-future-resolved-%d-times" % len(d), "post_async of e%d (pid %d): the future resolved %d times "
                       "by the end of the run" % (self.posts[pid]["event"], pid, len(d)))
                continue
            if d[0]["kwargs"].get("pid") != pid:
                self.v("post_async-wrong-result", "post_async pid %d resolved with %r" % (pid, d[0]["kwargs"]))
            # the subtree of the post: everything posted from its handlers (transitively)
            tree = {pid}
            grew = True
            while grew:
                grew = False
                for q, p in self.posts.items():
                    if q not in tree and p["ctx"][0] in ("inv", "cb") and (
                            (p["ctx"][0] == "inv" and p["ctx"][2] in tree) or (p["ctx"][0] == "cb" and p["ctx"][1] in tree)):
                        tree.add(q)
                        grew = True
            late = [i for q in tree for i in self.posts[q]["invs"] if self.invs[i]["pos"] > d[0]["pos"]]
            late += [inv for inv, pids in seen_done if pid in pids and self.invs[inv]["pid"] in tree]
            if late:
                self.v("post_async-resolved-early", "post_async pid %d resolved at log position %d before handler invocations %r "
                       "of its own subtree ran" % (pid, d[0]["pos"], late[:5]))

    def cx_at(self, pos):
        """Value of the machine variable cx just before log position pos."""
        val = 0
        for p_, v_ in self.cx_log:
            if p_ >= pos:
                break
            val = v_
        return val

    # registry replay -------------------------------------------------------------------------
    def live_at(self, pos):
        live = set()
        for p, kind, insts, spec, ctx in self.reg_events:
            if p >= pos:
                break
            if kind == "REG":
                live.add(insts[0])
            else:
                live.difference_update(insts)
        return live

    def check_dispatch(self, p):
        pid = p["pid"]
        invs = [self.invs[i] for i in p["invs"]]
        ev = p["event"]
        isq = p["type"] == "queue"
        if not invs:
            if self.sentinels:
                self.v("event-not-dispatched", "event e%d (pid %d, type %s) was posted but no handler ran (a sentinel "
                       "handler is registered on every event)" % (ev, pid, p["type"]))
            else:
                # without sentinels: must have been dispatched if some program handler was live at post time and is
                # still required; treated below through span-less delivery check
                self.check_delivery_no_span(p)
            return
        first, last = invs[0]["pos"], invs[-1]["end"]
        # (2) contiguity: no invocation of another pid between first and last (non-queue events)
        if not isq:
            for i in self.invs.values():
                if i["pid"] != pid and first < i["pos"] < (last if last is not None else 10 ** 9):
                    if self.posts.get(i["pid"], {}).get("type") == "queue":
                        self.v("interleaved-dispatch-queue", "handler of queue event pid %r ran inside the dispatch of pid %d" % (i["pid"], pid))
                    else:
                        self.v("interleaved-dispatch", "handler %r of event pid %r ran inside the dispatch of pid %d (e%d)" % (
                            i["spec"], i["pid"], pid, ev))
                    break
        # (3) priority order
        pr = [self.prio(i["spec"]) for i in invs]
        if any(a < b for a, b in zip(pr, pr[1:])):
            self.v("priority-order", "handlers of pid %d (e%d) ran with priorities %r (must be non-increasing)" % (pid, ev, pr))
        # wrong event
        for i in invs:
            sev = int(i["spec"][1:]) if isinstance(i["spec"], str) else self.specs[i["spec"]]["event"]
            if sev != ev:
                self.v("wrong-event", "handler %r registered for e%d was invoked for e%d" % (i["spec"], sev, ev))
        # (5) kwargs and fold
        fold = dict(p["kwargs"])
        stopped_at = None
        for n, i in enumerate(invs):
            reg = {} if isinstance(i["spec"], str) else self.specs[i["spec"]]["kwargs"]
            exp = dict(fold)
            exp.update(reg)
            if i["kwargs"] != exp:
                self.v("kwargs-merge" + (":relay" if p["type"] == "relay" else ""),
                       "handler %r of pid %d received %r, expected posted %r overridden by registered %r = %r" % (
                           i["spec"], pid, i["kwargs"], fold, reg, exp))
            sp_i = None if isinstance(i["spec"], str) else self.specs[i["spec"]]
            cx_unobservable = sp_i is not None and sp_i["cond"] and "machine.cx" in sp_i["cond"] and (
                sp_i.get("wait") or [None])[0] == "async"      # a coroutine logs its start later than its condition was read
            if sp_i is not None and not cx_unobservable and not _cond_eval(sp_i["cond"], dict(exp, __cx__=self.cx_at(i["pos"]))):
                self.v("condition-false-but-invoked", "handler %r (condition %r) invoked with %r" % (
                    i["spec"], self.specs[i["spec"]]["cond"], exp))
            if not isinstance(i["spec"], str) and _blocked(fold.get("_min_priority"), self.specs[i["spec"]].get("facility"),
                                                           self.specs[i["spec"]]["prio"]):
                self.v("blocked-but-invoked", "handler %r (facility %r, priority %d) of pid %d was invoked although an earlier "
                       "handler had set _min_priority %r" % (i["spec"], self.specs[i["spec"]].get("facility"),
                                                             self.specs[i["spec"]]["prio"], pid, fold.get("_min_priority")))
            i["fold_before"] = dict(fold)
            if p["type"] == "relay" and i["retdict"] is not None:
                fold.update(i["retdict"])
            elif p["type"] != "queue" and i["retdict"] is not None and "_min_priority" in i["retdict"] and not (
                    p["type"] == "boolean" and i["ret"] == "False"):
                fold["_min_priority"] = i["retdict"]["_min_priority"]
            if p["type"] == "boolean" and i["ret"] == "False":
                stopped_at = n
                if n != len(invs) - 1:
                    self.v("boolean-not-stopped", "boolean event pid %d: handlers %r ran after %r returned False" % (
                        pid, [x["spec"] for x in invs[n + 1:]], i["spec"]))
                break
        p["final_fold"] = fold
        p["stopped"] = stopped_at is not None
        stop_prio = self.prio(invs[stopped_at]["spec"]) if stopped_at is not None else None

        # (4) delivery counts
        # a queue event's dispatch begins when its task starts, somewhere between the post and the first logged
        # invocation (an async handler logs only once its coroutine runs): registry changes in that window are undecided
        begin = p["pos"] if isq else first
        live0 = self.live_at(begin)
        changes = [(pos, kind, insts, ctx) for pos, kind, insts, spec, ctx in self.reg_events
                   if begin <= pos <= (last if last is not None else first)]
        added_inside = set()
        removed_inside = {}
        for pos, kind, insts, ctx in changes:
            if kind == "REG":
                added_inside.add(insts[0])
            else:
                for x in insts:
                    removed_inside.setdefault(x, (pos, ctx))
        count = {}
        for i in invs:
            if not isinstance(i["spec"], str):
                count[i["spec"]] = count.get(i["spec"], 0) + 1
        need = {}
        opt = {}
        for inst in live0 | added_inside:
            s = self.inst_spec[inst]
            sp = self.specs[s]
            if sp["event"] != ev:
                continue
            optional = inst in added_inside
            if inst in removed_inside and not optional:
                pos, ctx = removed_inside[inst]
                remover = self.invs.get(ctx[1]) if ctx and ctx[0] == "inv" else None
                if remover is None or remover["pid"] != pid:
                    optional = True     # removed by something else running meanwhile (queue events): undecided
                elif self.prio(remover["spec"]) < sp["prio"]:
                    optional = False    # its turn was before the remover's
                else:
                    optional = True     # removed before its turn, or by an equal-priority handler (maybe itself)
            if stop_prio is not None and sp["prio"] <= stop_prio:
                # boolean event stopped at a handler of priority stop_prio: lower ones must not run, equal undecided
                if sp["prio"] < stop_prio:
                    continue
                optional = True
            # condition: evaluate on the fold the handler would have seen
            states = self._fold_states_for(invs, sp, p)
            conds = set(_cond_eval(sp["cond"], dict(f, **sp["kwargs"])) for f in states)
            if conds == {False}:
                continue
            if False in conds:
                optional = True
            blocked = set(_blocked(f.get("_min_priority"), sp.get("facility"), sp["prio"]) for f in states)
            if blocked == {True}:
                self.n_blocked = getattr(self, "n_blocked", 0) + 1
                continue
            if True in blocked:
                optional = True
            if optional:
                opt[s] = opt.get(s, 0) + 1
            else:
                need[s] = need.get(s, 0) + 1
        for s in set(need) | set(opt) | set(count):
            c = count.get(s, 0)
            lo = need.get(s, 0)
            hi = lo + opt.get(s, 0)
            if c < lo:
                self.v("handler-missed" + (":queue" if isq else ""),
                       "event pid %d (e%d, %s): handler spec %d was invoked %d times but %d registration(s) were live when "
                       "the dispatch began (optional %d)" % (pid, ev, p["type"], s, c, lo, hi - lo))
            elif c > hi:
                self.v("handler-extra" + (":queue" if isq else ""),
                       "event pid %d (e%d, %s): handler spec %d was invoked %d times, at most %d registration(s) could "
                       "receive it" % (pid, ev, p["type"], s, c, hi))
        if self.sentinels and stop_prio is None:
            ns = sum(1 for i in invs if isinstance(i["spec"], str))
            if ns != 1:
                self.v("sentinel-count", "event pid %d (e%d): the always-registered lowest-priority handler ran %d times" % (pid, ev, ns))
        if isq and self.queue_checks:
            self.check_queue_sequence(p, invs)

    def _fold_states_for(self, invs, sp, p):
        """Possible kwargs states a non-invoked handler of priority sp.prio could have seen (relay results are folded in;
        for other events only a returned _min_priority is)."""
        isq = p["type"] == "queue"
        relay = p["type"] == "relay"
        states = []
        fold = dict(p["kwargs"])
        prs = [self.prio(i["spec"]) for i in invs]
        # positions 0..len(invs): state before invocation k; candidate positions are those consistent with priority order
        for k in range(len(invs) + 1):
            before_ok = all(prs[j] >= sp["prio"] for j in range(k))
            after_ok = all(prs[j] <= sp["prio"] for j in range(k, len(invs)))
            if before_ok and after_ok:
                # the global variable cx when this handler's turn came: its turn is followed at once by the next invoked
                # handler (slot k) or by the end of the dispatch (last slot; for a queue event its callback)
                if k < len(invs):
                    cxs = [self.cx_at(invs[k]["pos"])]
                elif not isq:
                    cxs = [self.cx_at(invs[-1]["end"] if invs[-1]["end"] is not None else invs[-1]["pos"])] if invs else [0, 1, 2]
                elif p.get("cb_pos"):
                    cxs = [self.cx_at(p["cb_pos"][0])]
                else:
                    cxs = [0, 1, 2]       # not observable: left open
                for cx in cxs:
                    states.append(dict(fold, __cx__=cx))
            if isq:
                continue
            if k < len(invs) and invs[k].get("retdict") is not None:
                if relay:
                    fold.update(invs[k]["retdict"])
                elif "_min_priority" in invs[k]["retdict"]:
                    fold["_min_priority"] = invs[k]["retdict"]["_min_priority"]
        return states or [dict(p["kwargs"], __cx__=cx) for cx in (0, 1, 2)]

    def check_delivery_no_span(self, p):
        # event without any invocation and no sentinels: fine if no required handler existed at post time
        live = self.live_at(p["pos"])
        for inst in live:
            s = self.inst_spec[inst]
            sp = self.specs[s]
            if sp["event"] != p["event"]:
                continue
            # was it removed later (before dispatch)? then nothing is required
            removed = any(kind == "UNREG" and inst in insts and pos > p["pos"] for pos, kind, insts, spec, ctx in self.reg_events)
            if removed:
                continue
            if p["type"] == "relay":
                continue
            if sp["cond"] and "machine.cx" in sp["cond"]:
                continue        # when the dispatch ran is not observable here
            if _cond_eval(sp["cond"], dict(p["kwargs"], **sp["kwargs"])):
                self.v("handler-missed:no-dispatch", "event pid %d (e%d) was never delivered to handler spec %d which was "
                       "registered from post to end" % (p["pid"], p["event"], s))
                return

    # (6) depth-first order ---------------------------------------------------------------------
    def check_order(self, order):
        pending = deque()
        cur = None          # pid of current span
        children = []
        seen = set()
        for pos, e in enumerate(self.log):
            k = e[0]
            if k == "POST":
                pid, ctx = e[1], e[4]
                if e[3] == "queue":
                    # queue events are dispatched in their own task; they take a slot in the pending list like any
                    # other event but their handlers run later. Modelled as dispatched at their first invocation.
                    pass
                if ctx[0] == "inv" and cur is not None and self.invs[ctx[1]]["pid"] == cur:
                    children.append(pid)
                else:
                    if cur is not None:
                        pending.extendleft(reversed(children))
                        children = []
                        cur = None
                    pending.append(pid)
            elif k == "INV_START":
                pid = e[3]
                if pid == cur:
                    continue
                if pid in seen:
                    continue    # contiguity is reported by check_dispatch
                if self.posts.get(pid, {}).get("type") == "queue":
                    # handlers of queue events run from their own task, not from the dispatch loop
                    if pid in pending:
                        pending.remove(pid)
                    elif pid in children:
                        children.remove(pid)
                    seen.add(pid)
                    continue
                if cur is not None:
                    pending.extendleft(reversed(children))
                    children = []
                # queue events at the front of the pending list start their task when their turn comes: skip them
                while pending and self.posts[pending[0]]["type"] == "queue":
                    pending.popleft()
                if not pending or pending[0] != pid:
                    self.v("dispatch-order", "event pid %r (e%s) was dispatched but the next event due was pid %r; "
                           "pending list %r" % (pid, self.posts.get(pid, {}).get("event"),
                                                pending[0] if pending else None, list(pending)[:8]))
                    if pid in pending:
                        pending.remove(pid)
                else:
                    pending.popleft()
                cur = pid
                seen.add(pid)
            elif k in ("CB", "OP", "SETTLE", "END"):
                if cur is not None:
                    pending.extendleft(reversed(children))
                    children = []
                    cur = None

    # (7) callbacks -----------------------------------------------------------------------------
    def check_callbacks(self):
        # subtree: pids posted from invocations/callbacks of pid, transitively
        kids = {}
        for pid, p in self.posts.items():
            ctx = p["ctx"]
            parent = None
            if ctx[0] == "inv":
                parent = self.invs[ctx[1]]["pid"]
            if parent is not None:
                kids.setdefault(parent, []).append(pid)
        for pid, p in self.posts.items():
            n = len(p["cb_pos"])
            isq = p["type"] == "queue"
            if p["has_cb"]:
                if n == 0:
                    self.v("callback-missing" + (":queue" if isq else ""),
                           "completion callback of pid %d (e%d, %s) never ran" % (pid, p["event"], p["type"]))
                    continue
                if n > 1:
                    self.v("callback-twice" + (":queue" if isq else ""),
                           "completion callback of pid %d (e%d, %s) ran %d times" % (pid, p["event"], p["type"], n))
                cbpos = p["cb_pos"][0]
                # all handlers of this pid ended before the callback
                for i in p["invs"]:
                    iv = self.invs[i]
                    if iv["end"] is None or iv["end"] > cbpos:
                        self.v("callback-before-handler", "callback of pid %d ran before handler %r finished" % (pid, iv["spec"]))
                if not isq:
                    # transitive subtree dispatched before
                    todo = list(kids.get(pid, []))
                    while todo:
                        c = todo.pop()
                        cp = self.posts[c]
                        if cp["type"] == "queue":
                            continue    # runs in its own task; what its handlers post is not part of this dispatch
                        todo.extend(kids.get(c, []))
                        if self.sentinels and (not cp["invs"] or self.invs[cp["invs"][-1]]["end"] is None or
                                               self.invs[cp["invs"][-1]]["end"] > cbpos):
                            self.v("callback-before-subtree", "callback of pid %d ran before pid %d (posted while handling "
                                   "it) had been dispatched" % (pid, c))
                            break
                # result reporting (C02 clause for relay/boolean; harmless for plain events)
                if p["type"] == "relay" and "final_fold" in p:
                    got = {k: v for k, v in (p.get("cb_kwargs") or {}).items() if k != "ev_result"}
                    # ev_result (the last handler's return value) is an addition of the dispatcher, not an argument
                    if got != p["final_fold"]:
                        self.v("relay-result", "relay event pid %d returned %r, expected the fold %r" % (
                            pid, p.get("cb_kwargs"), p["final_fold"]))
                if p["type"] == "boolean" and "stopped" in p:
                    got = p.get("cb_kwargs", {}).get("ev_result", "absent")
                    if p["stopped"] and got is not False:
                        self.v("boolean-result", "boolean event pid %d was stopped by a False but the callback got ev_result=%r" % (pid, got))
                    if not p["stopped"] and got is False:
                        self.v("boolean-result", "boolean event pid %d: no handler returned False but ev_result=False" % pid)
            elif n:
                self.v("callback-unexpected", "callback ran for pid %d which has none" % pid)

    # C02 sequencing ------------------------------------------------------------------------------
    def check_queue_sequence(self, p, invs):
        pid = p["pid"]
        for a, b in zip(invs, invs[1:]):
            if a["wait"] is not None:
                if a["clear"] is None or a["clear"][0] > b["pos"]:
                    self.v("queue-overlap", "queue event pid %d: handler %r started at log %d while the wait of handler %r "
                           "was outstanding (cleared at %r)" % (pid, b["spec"], b["pos"], a["spec"], a["clear"]))
        if p["cb_pos"]:
            cbpos = p["cb_pos"][0]
            for a in invs:
                if a["wait"] is not None and (a["clear"] is None or a["clear"][0] > cbpos):
                    self.v("queue-callback-early", "queue event pid %d: callback ran while the wait of handler %r was "
                           "outstanding" % (pid, a["spec"]))
