"""C17 — Shows run on schedule without drift and clean up after themselves."""
import functools

from hypothesis import strategies as st

from vlib.engine import Result, SubCheck, violation
from vlib.loops import make_jitter_loop
from vlib.rig import Rig

PROPERTY = "C17"
LEVEL = "exploration"
RULE = ("schedule: 1-2 generated shows (2-6 steps with durations given as duration:, absolute time: or relative +time:, "
        "lights, a coil, a token light, a marker event per step) are played through the RunningShow API with speed in "
        "{0.25,0.5,1,1.5,3,7}, loops in {-1,0,1,3}, positive/negative start steps, sync_ms, manual_advance and "
        "priorities, then controlled by stop/pause/resume/advance/step_back/update(speed) at generated instants on a "
        "loop whose wake-ups are late by generated amounts; up to three concurrent instances on the same lights. "
        "player: the same shows driven through show_player entries with keys (replacement under one key, sync_ms). "
        "Non-trivial = a non-unit speed with >= 2 loops played, or a control request between steps, or two shows on one "
        "light, or >= 50 automatic steps. Distinct = distinct case hash.")
ASSUMPTIONS = [
    "loop wake-ups are late by at most the generated J (<= 4 ms)",
    "a control request exactly at a step instant may land before or after it (cases draw request times that avoid "
    "step instants by construction only approximately; a marker within 1 us of a request is accepted either way)",
    "update(speed) applies from the next scheduled step on (the step already scheduled keeps its time)",
    "in time: mode the last step gets the documented default duration of 1 s",
]
EPS = 1e-6
COLORS = ["red", "blue", "00ff00", "white", "808080"]
DUR_MS = [30, 50, 50, 100, 250]
jitter = st.lists(st.sampled_from([0, 0, 1, 2, 4]), min_size=1, max_size=4)


@st.composite
def show_def(draw, name):
    n = draw(st.integers(2, 6))
    steps = []
    for k in range(n):
        s = {"d": draw(st.sampled_from(DUR_MS)), "color": draw(st.sampled_from(COLORS)),
             "light": draw(st.sampled_from(["l1", "l1", "l2", "tok"])), "coil": draw(st.sampled_from([None, None, None, "enable", "disable"]))}
        steps.append(s)
    return {"name": name, "steps": steps, "mode": draw(st.sampled_from(["duration", "duration", "time_abs", "time_rel"]))}


def render_show(sd):
    out = []
    t = 0
    n = len(sd["steps"])
    for k, s in enumerate(sd["steps"]):
        step = {}
        if sd["mode"] == "duration":
            step["duration"] = "%dms" % s["d"]
        elif sd["mode"] == "time_abs":
            step["time"] = ("%dms" % t) if k else 0
        else:
            step["time"] = ("+%dms" % sd["steps"][k - 1]["d"]) if k else 0
        t += s["d"]
        light = "(led)" if s["light"] == "tok" else s["light"]
        step["lights"] = {light: s["color"]}
        if s["coil"]:
            step["coils"] = {"c1": s["coil"]}
        step["events"] = "mk_%s_%d" % (sd["name"], k)
        out.append(step)
    del n
    return out


def durations(sd):
    d = [s["d"] / 1000.0 for s in sd["steps"]]
    if sd["mode"] != "duration":
        d[-1] = 1.0
    return d


play_args = st.fixed_dictionaries({
    "show": st.integers(0, 1), "speed": st.sampled_from([0.25, 0.5, 1, 1, 1.5, 3, 7]), "loops": st.sampled_from([-1, -1, 0, 1, 3]),
    "start_step": st.sampled_from([1, 1, 2, 3, -1, -2]), "sync_ms": st.sampled_from([None, None, None, 0, 100, 250]),
    "manual": st.sampled_from([False, False, False, True]), "priority": st.integers(0, 2)})
hid = st.integers(0, 2)
op = st.one_of(
    st.tuples(st.just("play"), hid, play_args).map(list),
    st.tuples(st.just("play"), hid, play_args).map(list),
    st.tuples(st.just("stop"), hid).map(list),
    st.tuples(st.just("pause"), hid).map(list),
    st.tuples(st.just("resume"), hid).map(list),
    st.tuples(st.just("advance"), hid, st.integers(1, 2)).map(list),
    st.tuples(st.just("step_back"), hid).map(list),
    st.tuples(st.just("update"), hid, st.sampled_from([0.5, 1, 2, 3])).map(list),
    st.tuples(st.just("time"), st.sampled_from([7, 13, 41, 77, 203, 611, 1507, 4001])).map(list),
    st.tuples(st.just("time"), st.sampled_from([7, 13, 41, 77, 203, 611, 1507, 4001])).map(list),
    st.tuples(st.just("time"), st.sampled_from([7, 13, 41, 77, 203, 611, 1507, 4001])).map(list),
)


@st.composite
def case_schedule(draw):
    return {"jitter": draw(jitter), "shows": [draw(show_def("a")), draw(show_def("b"))],
            # machine-wide default for shows played without sync_ms; an explicit sync_ms (also 0) overrides it
            "default_sync": draw(st.sampled_from([0, 0, 0, 200, 500])),
            "ops": draw(st.lists(op, min_size=3, max_size=30))}


class ShowModel:
    """Position/time model of one running show instance."""

    def __init__(self, durs, args, t, J, v, label):
        self.d = durs
        self.n = len(durs)
        self.speed = args["speed"]
        self.loops = args["loops"]
        self.manual = args["manual"]
        self.J = J
        self.v = v
        self.label = label
        s = args["start_step"]
        self.idx = s - 1 if s > 0 else (s % self.n if s < 0 else 0)
        sync = args["sync_ms"]
        if sync:
            ss = sync / 1000.0
            self.next_time = t + ss - (t % ss)
        else:
            self.next_time = t
        self.started = False
        self.stopped = False
        self.completed = False
        self.expect_events = []     # lifecycle events due at given times: (kind, time)
        self.auto_steps = 0
        self.wraps = 0
        self.t_stop = None

    def _wrap(self, t):
        """Called when idx ran past the last step at time t. Returns False if the show completes."""
        if self.idx < self.n:
            return True
        if self.loops > 0:
            self.loops -= 1
        elif self.loops == 0:
            self.stopped = True
            self.completed = True
            self.next_time = None
            self.t_stop = t
            self.expect_events += [("stopped", t), ("completed", t)]
            return False
        self.idx = 0
        self.wraps += 1
        self.expect_events.append(("looped", t))
        return True

    def due_completion(self, now):
        """A completion that is due (no marker comes with it)."""
        if self.stopped or self.next_time is None:
            return
        if self.idx >= self.n and self.loops == 0 and self.next_time + self.J + EPS < now:
            self._wrap(self.next_time)

    def on_marker(self, idx, t, forced=False):
        if self.stopped:
            self.v("step-after-stop", "%s: step %d ran at %.4f after the show had stopped/completed (at %r)" % (self.label, idx, t, self.t_stop))
            return
        if self.next_time is None:
            self.v("unexpected-step", "%s: step %d ran at %.4f but no step is scheduled (paused / manual advance)" % (self.label, idx, t))
            return
        if self.idx < 0:
            self.idx %= self.n
        if not self._wrap(self.next_time):
            self.v("step-after-completion", "%s: step %d ran at %.4f although the show's loops were exhausted" % (self.label, idx, t))
            return
        if idx != self.idx:
            self.v("wrong-step", "%s: step %d ran at %.4f, the next step due is %d" % (self.label, idx, t, self.idx))
            self.idx = idx
        if not forced:
            if t < self.next_time - EPS:
                self.v("step-early", "%s: step %d ran at %.6f, scheduled for %.6f" % (self.label, idx, t, self.next_time))
            elif t > self.next_time + self.J + EPS:
                self.v("step-late-or-drift", "%s: step %d ran at %.6f, scheduled for %.6f (max lateness %.3f)" % (
                    self.label, idx, t, self.next_time, self.J))
            else:
                self.auto_steps += 1
        if not self.started:
            self.started = True
            self.expect_events.append(("played", t))
        dur = self.d[self.idx] / self.speed
        self.idx += 1
        if self.manual:
            self.next_time = None
        else:
            self.next_time = self.next_time + dur

    def overdue(self, now):
        self.due_completion(now)
        if not self.stopped and self.next_time is not None and self.next_time + self.J + EPS < now:
            self.v("step-missing", "%s: step %d was due at %.6f and has not run by %.6f" % (self.label, self.idx % self.n, self.next_time, now))
            self.next_time = None


def check_schedule(case):
    J = max(case["jitter"]) / 1000.0
    vio = []
    classes = set()

    def v(sig, msg):
        if len(vio) < 5:
            vio.append(violation(sig, msg))
    shows_cfg = {sd["name"]: render_show(sd) for sd in case["shows"]}
    patches = {"shows": shows_cfg}
    if case.get("default_sync"):
        patches["mpf"] = {"default_show_sync_ms": case["default_sync"]}
        classes.add("machine default sync")
    with Rig("shows17", patches=patches, loop_cls=make_jitter_loop([j / 1000.0 for j in case["jitter"]])) as rig:
        m = rig.machine
        ev = m.events
        durs = {}
        for sd in case["shows"]:
            real = [s["duration"] for s in m.shows[sd["name"]].show_steps]
            exp = durations(sd)
            if [round(x, 6) for x in real] != [round(x, 6) for x in exp]:
                v("step-durations", "show %s (%s mode): loaded step durations %r, the generated steps give %r" % (
                    sd["name"], sd["mode"], real, exp))
            durs[sd["name"]] = exp
        handles = {}        # hid -> dict(show=RunningShow, model=ShowModel, name)
        seen_events = []

        def marker(name, k, **kwargs):
            t = rig.now
            # the instance that is due for this marker: the live instance of that show whose schedule matches best
            cands = [h for h in handles.values() if h["name"] == name and not h["model"].stopped]
            if not cands:
                live = [h for h in handles.values() if h["name"] == name]
                if live:
                    live[-1]["model"].on_marker(k, t)
                else:
                    v("step-without-show", "marker of show %s step %d at %.4f but no instance was played" % (name, k, t))
                return
            forced = getattr(marker, "forced", None)
            if forced is not None and forced["name"] == name:
                forced["model"].on_marker(k, t, forced=True)
                return

            def score(h):
                mo = h["model"]
                if mo.next_time is None:
                    return (2, 0)
                idx = mo.idx % mo.n if mo.idx >= mo.n else mo.idx
                return (0 if idx == k else 1, abs(mo.next_time - t))
            best = min(cands, key=score)
            best["model"].on_marker(k, t)
        for sd in case["shows"]:
            for k in range(len(sd["steps"])):
                ev.add_handler("mk_%s_%d" % (sd["name"], k), functools.partial(marker, sd["name"], k))

        def life(hid_, kind, **kwargs):
            seen_events.append((hid_, kind, rig.now))
        for h_ in range(3):
            for kind in ("played", "looped", "completed", "stopped"):
                ev.add_handler("ev_%d_%s" % (h_, kind), functools.partial(life, h_, kind))

        def retire(h_):
            old = handles.pop(h_, None)
            if old is not None:
                retired.append(old)
        retired = []
        gen = [0]

        for o in case["ops"]:
            if vio:
                break
            k = o[0]
            now = rig.now
            # a completion that is due within the lateness window [due, due+J] may or may not have happened before this
            # operation (no step marker comes with it): there the real show says which, outside the window the model does
            for hh in handles.values():
                mo = hh["model"]
                if (not mo.stopped and mo.next_time is not None and mo.idx >= mo.n and mo.loops == 0 and hh["show"] is not None
                        and mo.next_time - EPS <= now <= mo.next_time + mo.J + EPS and hh["show"].stopped):
                    classes.add("operation inside the lateness window of a completion")
                    mo._wrap(mo.next_time)      # pylint: disable=protected-access
            try:
                if k == "play":
                    h_, a = o[1], o[2]
                    if h_ in handles and not handles[h_]["model"].stopped:
                        handles[h_]["show"].stop()
                        handles[h_]["model"].stopped = True
                        handles[h_]["model"].t_stop = now
                        handles[h_]["model"].expect_events.append(("stopped", now))
                    retire(h_)
                    sd = case["shows"][a["show"]]
                    a = dict(a)
                    nsteps = len(sd["steps"])
                    if a["start_step"] > nsteps:
                        a["start_step"] = (a["start_step"] - 1) % nsteps + 1      # start steps beyond the show are not valid input
                    if a["start_step"] < -nsteps:
                        a["start_step"] = -1
                    # markers are per show: keep one live instance per show so every step can be attributed
                    for oh, other in list(handles.items()):
                        if other["name"] == sd["name"] and not other["model"].stopped:
                            other["show"].stop()
                            other["model"].stopped = True
                            other["model"].t_stop = now
                            other["model"].next_time = None
                            other["model"].expect_events.append(("stopped", now))
                    # the sync the show is entitled to: its own sync_ms if given (0 = none), else the machine default
                    eff_sync = a["sync_ms"] if a["sync_ms"] is not None else case.get("default_sync", 0)
                    if a["sync_ms"] == 0 and case.get("default_sync"):
                        classes.add("explicit sync_ms 0 under a machine default")
                    a_model = dict(a, sync_ms=eff_sync)
                    gen[0] += 1
                    model = ShowModel(durs[sd["name"]], a_model, now, J, v, "show %s (handle %d, #%d)" % (sd["name"], h_, gen[0]))
                    handles[h_] = {"name": sd["name"], "model": model, "show": None, "hid": h_, "args": a_model}
                    marker.forced = handles[h_] if not eff_sync else None
                    rs = m.shows[sd["name"]].play(
                        priority=a["priority"], speed=a["speed"], start_step=a["start_step"], loops=a["loops"],
                        sync_ms=a["sync_ms"], manual_advance=a["manual"],
                        show_tokens={"led": "l3"} if any(x["light"] == "tok" for x in sd["steps"]) else None,
                        events_when_played=["ev_%d_played" % h_], events_when_looped=["ev_%d_looped" % h_],
                        events_when_completed=["ev_%d_completed" % h_], events_when_stopped=["ev_%d_stopped" % h_])
                    handles[h_]["show"] = rs
                    rig.run_ready()
                    marker.forced = None
                    if len([x for x in handles.values() if not x["model"].stopped]) >= 2:
                        classes.add("concurrent-shows")
                elif k == "time":
                    rig.advance(o[1] / 1000.0)
                elif o[1] in handles:
                    h = handles[o[1]]
                    mo = h["model"]
                    rs = h["show"]
                    if mo.stopped:
                        continue
                    if mo.started:
                        classes.add("control-request-between-steps")
                    if mo.next_time is not None and abs(mo.next_time - now) < 2 * J + 1e-4:
                        continue        # too close to a step instant: either order would be legal
                    if not mo.started and k != "stop":
                        continue        # controlling a show that waits for its sync point is left to the player sub-check
                    if k == "stop":
                        rs.stop()
                        mo.stopped = True
                        mo.t_stop = now
                        mo.next_time = None
                        mo.expect_events.append(("stopped", now))
                    elif k == "pause":
                        rs.pause()
                        mo.next_time = None
                    elif k in ("resume", "advance", "step_back"):
                        if k == "advance" and o[2] != 1:
                            mo.idx += o[2] - 1
                        if k == "step_back":
                            mo.idx -= 2
                        mo.next_time = now
                        if mo.idx >= mo.n and mo.loops == 0:
                            # the request runs off the end of a show without loops left: it completes now, no step runs
                            mo._wrap(now)        # pylint: disable=protected-access
                            {"resume": rs.resume, "advance": lambda: rs.advance(steps=o[2]), "step_back": rs.step_back}[k]()
                            rig.run_ready()
                            continue
                        marker.forced = h
                        if k == "resume":
                            rs.resume()
                        elif k == "advance":
                            rs.advance(steps=o[2])
                        else:
                            rs.step_back()
                        rig.run_ready()
                        marker.forced = None
                    elif k == "update":
                        rs.update(speed=o[2])
                        mo.speed = o[2]
                    rig.run_ready()
            except Exception as e:   # pylint: disable=broad-except
                import traceback
                v("exception:" + type(e).__name__, "operation %r raised %r\n%s" % (o, e, traceback.format_exc()[-900:]))
                break
            for h in handles.values():
                h["model"].overdue(rig.now)
            if rig.exceptions:
                v("loop-exception", "exception reached the loop after %r: %s" % (o, rig.exception_summaries()[:2]))
        if not vio:
            # stop everything, wait, and check clean-up
            rig.advance(0.05)
            for h in handles.values():
                if not h["model"].stopped:
                    h["model"].overdue(rig.now)
                if not h["model"].stopped:
                    if h["model"].next_time is not None and h["model"].idx >= h["model"].n and h["model"].loops == 0 and \
                            h["model"].next_time <= rig.now + EPS:
                        h["model"]._wrap(h["model"].next_time)     # pylint: disable=protected-access
                        continue
                    h["show"].stop()
                    if not h["model"].stopped:
                        h["model"].stopped = True
                        h["model"].expect_events.append(("stopped", rig.now))
            rig.advance(1.0)
            for light in m.lights.values():
                if light.stack:
                    v("light-stack-left", "all shows stopped but light %s still has stack entries %r" % (
                        light.name, [(e.key, e.priority) for e in light.stack]))
                elif tuple(light.get_color()) != (0, 0, 0):
                    v("light-not-restored", "all shows stopped but light %s shows %r" % (light.name, tuple(light.get_color())))
            if getattr(m.coils["c1"].hw_driver, "state", None) == "enabled":
                v("coil-left-enabled", "all shows stopped but coil c1, enabled by a show step, is still enabled")
            # lifecycle events: each expected one exactly once at its time
            for h in list(handles.values()) + retired:
                mo = h["model"]
                mine = [(kind, t) for (hh, kind, t) in seen_events if hh == h["hid"]]
                del mine
            by_hid = {}
            for hh, kind, t in seen_events:
                by_hid.setdefault(hh, []).append((kind, t))
            exp_by_hid = {}
            for h in retired + list(handles.values()):
                exp_by_hid.setdefault(h["hid"], []).extend(h["model"].expect_events)
            for hh in set(by_hid) | set(exp_by_hid):
                got = sorted(by_hid.get(hh, []), key=lambda x: (x[1], x[0]))
                exp = sorted(exp_by_hid.get(hh, []), key=lambda x: (x[1], x[0]))
                gk = sorted(k2 for k2, _ in got)
                ek = sorted(k2 for k2, _ in exp)
                if gk != ek:
                    from collections import Counter
                    diff = {k2: (Counter(ek)[k2], Counter(gk)[k2]) for k2 in set(gk) | set(ek) if Counter(ek)[k2] != Counter(gk)[k2]}
                    v("lifecycle-event-count:" + ",".join(sorted(diff)), "handle %d: show events (expected, got) differ: %r; got %r" % (
                        hh, diff, got[-8:]))
                    continue
                for (k1, t1), (k2, t2) in zip(sorted(exp, key=lambda x: (x[0], x[1])), sorted(got, key=lambda x: (x[0], x[1]))):
                    if t2 < t1 - EPS or t2 > t1 + J + EPS:
                        v("lifecycle-event-time:" + k1, "handle %d: %s posted at %.6f, due at %.6f" % (hh, k1, t2, t1))
                        break
            if rig.exceptions and not vio:
                v("loop-exception", "exception reached the loop: %s" % rig.exception_summaries()[:2])
        total_auto = sum(h["model"].auto_steps for h in retired + list(handles.values()))
        for h in retired + list(handles.values()):
            if h["args"]["speed"] != 1 and h["model"].wraps >= 2:
                classes.add("non-unit-speed-with->=2-loops")
        if total_auto >= 50:
            classes.add(">=50-automatic-steps")
    classes.add("J=%dms" % max(case["jitter"]))
    nontrivial = bool(classes & {"non-unit-speed-with->=2-loops", "control-request-between-steps", "concurrent-shows",
                                 ">=50-automatic-steps"})
    return Result(vio or None, sorted(classes), nontrivial)


# ---- show_player driven --------------------------------------------------------------------------------
pop = st.one_of(
    st.sampled_from([["ev", "play_a"], ["ev", "play_b"], ["ev", "play_a_sync"], ["ev", "play_b_manual"], ["ev", "play_other"]]),
    st.sampled_from([["ev", "play_a"], ["ev", "play_b"], ["ev", "play_a_sync"], ["ev", "play_b_manual"], ["ev", "play_other"]]),
    st.sampled_from([["ev", "pause_k"], ["ev", "resume_k"], ["ev", "advance_k"], ["ev", "back_k"], ["ev", "stop_k"], ["ev", "stop_other"],
                     ["ev", "update_k"]]),
    # the same from a mode with priority 100 (and the mode stopping and starting again)
    st.sampled_from([["ev", "mplay_a"], ["ev", "mplay_a"], ["ev", "mplay_b"], ["ev", "mstop"], ["ev", "stop_ms"], ["ev", "start_ms"]]),
    st.tuples(st.just("time"), st.sampled_from([7, 41, 77, 203, 611, 1507])).map(list),
    st.tuples(st.just("time"), st.sampled_from([7, 41, 77, 203, 611, 1507])).map(list),
)


@st.composite
def case_player(draw):
    return {"shows": [draw(show_def("a")), draw(show_def("b"))], "ops": draw(st.lists(pop, min_size=3, max_size=30)),
            "sync_ms": draw(st.sampled_from([100, 250, 1000]))}


def check_player(case):
    vio = []
    classes = set()

    def v(sig, msg):
        if len(vio) < 5:
            vio.append(violation(sig, msg))
    shows_cfg = {sd["name"]: render_show(sd) for sd in case["shows"]}
    tok = {sd["name"]: ({"show_tokens": {"led": "l3"}} if any(x["light"] == "tok" for x in sd["steps"]) else {})
           for sd in case["shows"]}
    sp = {
        "play_a": {"a": dict(tok["a"], key="K", loops=-1, events_when_played="p_played", events_when_stopped="p_stopped")},
        "play_b": {"b": dict(tok["b"], key="K", loops=1, speed=2, events_when_played="p_played", events_when_stopped="p_stopped")},
        "play_a_sync": {"a": dict(tok["a"], key="K", sync_ms=case["sync_ms"], events_when_played="p_played",
                                  events_when_stopped="p_stopped")},
        "play_b_manual": {"b": dict(tok["b"], key="K", manual_advance=True, sync_ms=case["sync_ms"], events_when_played="p_played",
                                    events_when_stopped="p_stopped")},
        "play_other": {"b": dict(tok["b"], key="O", priority=2, events_when_played="p_played", events_when_stopped="p_stopped")},
        "pause_k": {"a": {"key": "K", "action": "pause"}},
        "resume_k": {"a": {"key": "K", "action": "resume"}},
        "advance_k": {"a": {"key": "K", "action": "advance"}},
        "back_k": {"a": {"key": "K", "action": "step_back"}},
        "update_k": {"a": {"key": "K", "action": "update", "speed": 3}},
        "stop_k": {"a": {"key": "K", "action": "stop"}},
        "stop_other": {"b": {"key": "O", "action": "stop"}},
    }
    msp = {
        "mplay_a": {"a": dict(tok["a"], key="M", priority=3, loops=-1, events_when_stopped="p_stopped")},
        "mplay_b": {"b": dict(tok["b"], key="M", loops=1, events_when_stopped="p_stopped")},
        "mstop": {"a": {"key": "M", "action": "stop"}},
    }
    want_prio = {"K": 0, "O": 2, "M:a": 103, "M:b": 100}
    with Rig("shows17", patches={"shows": shows_cfg, "show_player": sp}, mode_patches={"ms": {"show_player": msp}}) as rig:
        m = rig.machine
        ev = m.events
        ev.post("start_ms")
        rig.advance(0.01)
        counts = {"created": 0, "stopped": 0}
        from mpf.assets import show as showmod
        made = []
        played = []
        orig_init = showmod.RunningShow.__init__

        def rec_init(self, *a, **kw):
            made.append(self)
            orig_init(self, *a, **kw)
        showmod.RunningShow.__init__ = rec_init
        try:
            ev.add_handler("p_stopped", lambda **kwargs: counts.__setitem__("stopped", counts["stopped"] + 1))
            for o in case["ops"]:
                if vio:
                    break
                try:
                    if o[0] == "ev":
                        if o[1].startswith("play") and "K" in m.show_player.instances["_global"]["show_player"]:
                            classes.add("replacement-under-one-key")
                        n_before = len(made)
                        ev.post(o[1])
                        rig.run_ready()
                        # priority of what was started: the entry's priority plus the priority of the mode that played it,
                        # the first time and every later time
                        for inst in made[n_before:]:
                            if o[1].startswith("mplay"):
                                classes.add("played-from-mode")
                                want = want_prio["M:" + o[1][-1]]
                                if sum(1 for x in played if x == o[1]) >= 1:
                                    classes.add("mode-entry-played-again")
                            elif o[1] == "play_other":
                                want = want_prio["O"]
                            else:
                                want = want_prio["K"]
                            if inst.show_config.priority != want:
                                v("show-priority-wrong", "show %s started by %s runs at priority %r, the entry's priority plus its "
                                  "mode's priority is %r (entries played so far: %r)" % (
                                      inst.show.name, o[1], inst.show_config.priority, want, played))
                        played.append(o[1])
                    else:
                        rig.advance(o[1] / 1000.0)
                except Exception as e:   # pylint: disable=broad-except
                    import traceback
                    v("exception:" + type(e).__name__, "operation %r raised %r\n%s" % (o, e, traceback.format_exc()[-900:]))
                    break
                if rig.exceptions:
                    v("loop-exception", "exception reached the loop after %r: %s" % (o, rig.exception_summaries()[:2]))
            if not vio:
                ev.post("stop_k")
                ev.post("stop_other")
                ev.post("stop_ms")
                rig.advance(case["sync_ms"] / 1000.0 + 1.5)
                alive = [s for s in made if not s.stopped]
                if alive:
                    v("show-still-running", "every key was stopped but %d show instance(s) are still running: %r" % (len(alive), alive[:3]))
                for light in m.lights.values():
                    if light.stack:
                        v("light-stack-left", "every key was stopped but light %s still has stack entries %r" % (
                            light.name, [(e.key, e.priority) for e in light.stack]))
                if getattr(m.coils["c1"].hw_driver, "state", None) == "enabled":
                    v("coil-left-enabled", "every key was stopped but coil c1 is still enabled")
                if counts["stopped"] != len(made) and not vio:
                    v("stopped-event-count", "%d show instances were created but events_when_stopped was posted %d times" % (
                        len(made), counts["stopped"]))
                if rig.exceptions and not vio:
                    v("loop-exception", "exception reached the loop: %s" % rig.exception_summaries()[:2])
        finally:
            showmod.RunningShow.__init__ = orig_init
        if len(made) >= 3:
            classes.add(">=3-instances")
    return Result(vio or None, sorted(classes) or ["plain"], bool(classes))


SUBCHECKS = [
    SubCheck("schedule", case_schedule, check_schedule, quick=2500, thorough=40000, procs_quick=6),
    SubCheck("player", case_player, check_player, quick=1500, thorough=20000, procs_quick=4),
]
