"""C02 — Queue, relay and boolean events complete exactly once and in order."""
import functools

from hypothesis import strategies as st

from props import evprog
from vlib.engine import Result, SubCheck, violation
from vlib.rig import Rig

PROPERTY = "C02"
LEVEL = "exploration"
RULE = ("programs: generated handler programs as in C01 plus queue events: handlers that wait and are cleared after a "
        "generated delay (0 = inside the handler), async coroutine handlers, handlers that post a nested queue event "
        "and clear when it completes; several queue events in flight together. Non-trivial = a queue event with >= 2 "
        "waiting handlers, or a nested queue event, or two queue events overlapping in time, or a relay/boolean event "
        "with a result-changing handler. modes: a queue event that starts modes (with and without use_wait_queue, with "
        "and without a logic block inside) next to generated waiting handlers, with generated stop times; non-trivial "
        "= the mode start lies between two waiting handlers or a use_wait_queue mode holds the event. Distinct = "
        "distinct case hash.")
ASSUMPTIONS = [
    "bounded liveness: 'completes' means by 2 s of virtual time after the last generated clear/stop (every generated "
    "wait is <= 50 ms)",
    "handlers never raise and never clear a wait twice; async handlers are only registered on events that are only "
    "posted as queue events (MPF's add_async_handler contract)",
    "a use_wait_queue mode started by a queue event holds that event until the mode stops (documented behaviour)",
]


def fix_program(case):
    """Events e3/e4 are queue-only (async handlers live there); everything posted to them becomes a queue event."""
    def fix_actions(acts):
        for a in acts:
            if a[0] == "post":
                if a[1] >= 3:
                    a[2] = "queue"
                if isinstance(a[4], list):
                    fix_actions(a[4])
            elif a[0] in ("delay_add", "hit_switch"):
                fix_actions(a[-1])
    for sp in case["specs"]:
        w = sp.get("wait")
        if w and w[0] == "async" and sp["event"] < 3:
            sp["event"] = 3 + sp["event"] % 2
        if w and w[0] == "nest":
            w[1] = 3 + w[1] % 2
        fix_actions(sp["script"])
    for op in case["ops"]:
        if op[0] in ("do",):
            fix_actions(op[1])
        elif op[0] in ("delay", "switch"):
            fix_actions(op[2])
    return case


def classify(case, log):
    classes = set()
    waits = {}
    qspans = []
    posts = {}
    for e in log:
        if e[0] == "POST":
            posts[e[1]] = e
            if e[3]:
                classes.add("type-" + e[3])
            if e[3] == "queue" and e[4] and e[4][0] == "inv":
                classes.add("nested-queue-event")
        elif e[0] == "WAIT":
            waits[e[2]] = waits.get(e[2], 0) + 1
        elif e[0] == "CB" and e[1] in posts and posts[e[1]][3] == "queue":
            qspans.append((posts[e[1]][7], e[3]))
    if any(n >= 2 for n in waits.values()):
        classes.add(">=2-waiting-handlers")
    qspans.sort()
    for (a0, a1), (b0, b1) in zip(qspans, qspans[1:]):
        if b0 < a1:
            classes.add("overlapping-queue-events")
    for e in log:
        if e[0] == "INV_END" and e[2] in ("False",) or (e[0] == "INV_END" and e[3] is not None):
            classes.add("result-changing-handler")
    nontrivial = bool(classes & {">=2-waiting-handlers", "nested-queue-event", "overlapping-queue-events",
                                 "result-changing-handler"})
    return sorted(classes), nontrivial


def check_programs(case):
    with Rig("events") as rig:
        it = evprog.Interp(rig, case)
        try:
            log = it.run()
        except Exception as e:   # pylint: disable=broad-except
            import traceback
            return Result([violation("exception:" + type(e).__name__, "program raised %r\n%s" % (e, traceback.format_exc()[-1500:]))],
                          ["raised"], True)
        exc = rig.exception_summaries()
        open_tasks = len(rig.machine.events._queue_tasks)   # pylint: disable=protected-access
    orc = evprog.Oracle(case, log, queue_checks=True)
    orc.order_checks = False
    vio = orc.run()
    if open_tasks:
        vio.append(violation("queue-task-never-finished", "%d queue event task(s) still open 2 s after the last clear" % open_tasks))
    if exc:
        vio.append(violation("loop-exception", "exception reached the loop: %s" % exc[:2]))
    classes, nontrivial = classify(case, log)
    return Result(vio or None, classes, nontrivial)


# ---- modes started from queue events -----------------------------------------------------------------
waiter = st.fixed_dictionaries({"prio": st.sampled_from([0, 50, 150, 250, 350]), "delay": st.sampled_from([0, 5, 20, 50])})
case_modes = st.fixed_dictionaries({
    "mode": st.sampled_from(["mq", "mp"]),
    "block_in_mode": st.booleans(),
    "waiters": st.lists(waiter, max_size=3),
    "starting_waiter": st.one_of(st.none(), st.sampled_from([0, 10, 30])),   # a waiting handler on mode_<n>_starting
    "stop_after": st.sampled_from([10, 60, 200]),
    "second_post": st.one_of(st.none(), st.sampled_from([0, 5, 100])),
})


def check_modes(case):
    mode = case["mode"]
    mp = {}
    if case["block_in_mode"]:
        mp[mode] = {"counters": {"cq": {"count_events": "cq_hit", "count_complete_value": 3}}}
    vio = []
    classes = set()
    with Rig("qmodes", mode_patches=mp or None) as rig:
        m = rig.machine
        ev = m.events
        log = []

        def t():
            return round(rig.now * 1000, 3)

        def mk_waiter(i, w):
            def handler(queue, **kwargs):
                log.append(("inv", i, t()))
                if w["delay"] == 0:
                    queue.wait()
                    queue.clear()
                    log.append(("clear", i, t()))
                else:
                    queue.wait()

                    def clear():
                        log.append(("clear", i, t()))
                        queue.clear()
                    m.clock.loop.call_later(w["delay"] / 1000.0, clear)
            return handler
        for i, w in enumerate(case["waiters"]):
            ev.add_handler("start_%s" % mode, mk_waiter(i, w), priority=w["prio"])
        if case["starting_waiter"] is not None:
            ev.add_handler("mode_%s_starting" % mode, mk_waiter("starting", {"delay": case["starting_waiter"]}))
        for name in ("will_start", "starting", "started", "will_stop", "stopping", "stopped"):
            ev.add_handler("mode_%s_%s" % (mode, name), functools.partial(lambda n, **kwargs: log.append(("mode", n, t())), name))
        cbs = []

        def done(pid, **kwargs):
            cbs.append(pid)
            log.append(("cb", pid, t()))
        ev.post_queue("start_%s" % mode, functools.partial(done, 0))
        if case["second_post"] is not None:
            rig.advance(case["second_post"] / 1000.0)
            ev.post_queue("start_%s" % mode, functools.partial(done, 1))
        rig.advance(0.3)
        modeobj = m.modes[mode]
        active = modeobj.active
        if not active:
            vio.append(violation("mode-not-active", "mode %s started by a queue event is not active 300 ms later "
                                 "(starting=%r, log %r)" % (mode, modeobj.starting, log)))
        holds = mode == "mq"
        if holds and active and 0 in cbs:
            vio.append(violation("wait-queue-not-held", "use_wait_queue mode: the start event completed while the mode is "
                                 "still running (log %r)" % (log,)))
        if not holds and 0 not in cbs:
            vio.append(violation("queue-callback-missing", "queue event start_%s did not complete although all waits were "
                                 "cleared (log %r)" % (mode, log)))
        rig.advance(case["stop_after"] / 1000.0)
        ev.post("stop_%s" % mode)
        rig.advance(2.0)
        if modeobj.active or modeobj.starting:
            vio.append(violation("mode-did-not-stop", "mode %s still active=%r starting=%r 2 s after its stop event" % (
                mode, modeobj.active, modeobj.starting)))
        nposts = 2 if case["second_post"] is not None else 1
        for pid in range(nposts):
            if cbs.count(pid) != 1:
                vio.append(violation("queue-callback-count", "callback of queue event #%d ran %d times by 2 s after the mode "
                                     "stopped (log %r)" % (pid, cbs.count(pid), log)))
        # sequencing of the generated waiters of post #0 (they run in priority order, one at a time)
        invs = [e for e in log if e[0] == "inv" and e[1] != "starting"]
        open_tasks = len(ev._queue_tasks)   # pylint: disable=protected-access
        if open_tasks:
            vio.append(violation("queue-task-never-finished", "%d queue event task(s) still open at the end" % open_tasks))
        del invs
        exc = rig.exception_summaries()
    if exc:
        vio.append(violation("loop-exception", "exception reached the loop: %s" % exc[:2]))
    if case["waiters"]:
        ps = sorted(w["prio"] for w in case["waiters"])
        mode_prio = 200 if mode == "mq" else 100
        if ps[0] < mode_prio < ps[-1]:
            classes.add("mode-start-between-waiters")
    if mode == "mq":
        classes.add("use_wait_queue")
    if case["block_in_mode"]:
        classes.add("block-in-mode")
    if case["starting_waiter"] is not None:
        classes.add("waiter-on-mode-starting")
    return Result(vio or None, sorted(classes) or ["plain"], bool(classes & {"mode-start-between-waiters", "use_wait_queue"}))


# ---- relay / boolean results, posted with and without arguments --------------------------------------
kwr = st.dictionaries(st.sampled_from("abc"), st.integers(0, 3), max_size=2)
case_relay = st.fixed_dictionaries({
    "type": st.sampled_from(["relay", "relay", "boolean"]),
    "posted": st.one_of(st.just({}), st.just({}), kwr),
    "handlers": st.lists(st.fixed_dictionaries({
        "prio": st.integers(-2, 2), "kwargs": st.one_of(st.just({}), kwr),
        "ret": st.sampled_from([None, None, False, True, {"a": 5}, {"b": 7, "d": 1}, {}, "x"])}), min_size=1, max_size=5),
    "api": st.sampled_from(["callback", "async"]),
})


def check_relay(case):
    vio = []
    with Rig("null") as rig:
        ev = rig.machine.events
        seen = []

        def mk(i, h):
            def handler(**kwargs):
                seen.append((i, dict(kwargs)))
                r = h["ret"]
                return dict(r) if isinstance(r, dict) else r
            return handler
        for i, h in enumerate(case["handlers"]):
            ev.add_handler("rel_ev", mk(i, h), priority=h["prio"], **h["kwargs"])
        result = []
        if case["type"] == "relay" and case["api"] == "async":
            fut = ev.post_relay_async("rel_ev", **case["posted"])
            rig.run_ready()
            rig.run_ready()
            if fut.done():
                result.append(fut.result())
        else:
            def cb(**kwargs):
                result.append(dict(kwargs))
            (ev.post_relay if case["type"] == "relay" else ev.post_boolean)("rel_ev", cb, **case["posted"])
            rig.run_ready()
        exc = rig.exception_summaries()
    hs = case["handlers"]
    order = [i for i, _ in seen]
    pr = [hs[i]["prio"] for i in order]
    if any(a < b for a, b in zip(pr, pr[1:])):
        vio.append(violation("priority-order", "handlers ran with priorities %r" % pr))
    fold = dict(case["posted"])
    stopped = False
    for n, (i, got) in enumerate(seen):
        exp = dict(fold)
        exp.update(hs[i]["kwargs"])
        if got != exp:
            vio.append(violation("%s-handler-args" % case["type"], "%s event posted with %r: handler %d (registered %r) got "
                                 "%r, expected %r after the earlier handlers' updates" % (
                                     case["type"], case["posted"], i, hs[i]["kwargs"], got, exp)))
            break
        r = hs[i]["ret"]
        if case["type"] == "relay" and isinstance(r, dict):
            fold.update(r)
        if case["type"] == "boolean" and r is False:
            stopped = True
            if n != len(seen) - 1:
                vio.append(violation("boolean-not-stopped", "handlers %r ran after handler %d returned False" % (order[n + 1:], i)))
            break
    if len(result) != 1:
        vio.append(violation("%s-callback-count" % case["type"], "completion ran %d times" % len(result)))
    elif not vio:
        res = {k: v for k, v in result[0].items() if k != "ev_result"}
        if case["type"] == "relay":
            if not stopped and sorted(order) != list(range(len(hs))):
                vio.append(violation("handler-missed", "relay handlers invoked: %r of %d" % (order, len(hs))))
            if res != fold:
                vio.append(violation("relay-result", "relay event posted with %r returned %r, expected %r" % (case["posted"], res, fold)))
        else:
            got = result[0].get("ev_result", "absent")
            if stopped and got is not False:
                vio.append(violation("boolean-result", "a handler returned False but ev_result=%r" % (got,)))
            if not stopped and got is False:
                vio.append(violation("boolean-result", "no handler returned False but ev_result=False"))
            if not stopped and sorted(order) != list(range(len(hs))):
                vio.append(violation("handler-missed", "boolean handlers invoked: %r of %d" % (order, len(hs))))
    if exc:
        vio.append(violation("loop-exception", "exception reached the loop: %s" % exc[:2]))
    classes = [case["type"], "posted-without-args" if not case["posted"] else "posted-with-args"]
    changing = any(isinstance(h["ret"], dict) and h["ret"] for h in hs) or any(h["ret"] is False for h in hs)
    if changing:
        classes.append("result-changing-handler")
    return Result(vio or None, classes, changing and len(hs) >= 2)


# ---- ball_ending / mode_game_stopping with a game mode that is just starting ----------------------------------------
D = [0, 5, 20, 50]
case_ballend = st.tuples(st.sampled_from(D), st.sampled_from(D), st.sampled_from([0, 1, 5, 15, 20, 30, 45, 50, 70]),
                         st.sampled_from([0, 5, 20]), st.sampled_from(["call", "event"]),
                         st.sampled_from(["drain", "drain", "end_game"]), st.booleans()).map(
    lambda t: {"d_start": t[0], "d_ball": t[1], "x": t[2], "d_stop": t[3], "start_how": t[4], "ender": t[5],
               "align": t[6]})


def check_ballend(case):
    """The game's ball_ending (or mode_game_stopping) queue event is posted while a game mode is between 'starting'
    and 'started'; every wait is cleared after its generated delay. The queue event must complete: the ball ends
    (ball_ended, then the next ball or the end of the game) and the game mode stops."""
    case = dict(case)
    if case["align"] and case["d_start"] >= case["d_ball"]:
        case["x"] = case["d_start"] - case["d_ball"]      # both waits are cleared at the same instant
    vio = []
    classes = set()
    with Rig("modes7", base="fakegame") as rig:
        m = rig.machine
        ev = m.events
        me = m.modes["me"]

        def _add_ball(**kwargs):
            m.playfield.balls += 1
            m.playfield.available_balls += 1
        m.playfield.add_ball = _add_ball
        m.ball_controller.num_balls_known = 3
        log = []

        def t():
            return round(rig.now * 1000, 3)
        for n in ("ball_started", "ball_ending", "ball_ended", "game_ended", "mode_me_will_start", "mode_me_starting",
                  "mode_me_started", "mode_me_will_stop", "mode_me_stopping", "mode_me_stopped", "mode_game_stopping",
                  "mode_game_stopped"):
            ev.add_handler(n, functools.partial(lambda name, **kwargs: log.append((name, t())), n), priority=2000)
        pending = [0]

        def mk_wait(delay):
            def handler(queue, **kwargs):
                queue.wait()
                if delay == 0:
                    queue.clear()
                    return
                pending[0] += 1

                def clear():
                    pending[0] -= 1
                    queue.clear()
                m.clock.loop.call_later(delay / 1000.0, clear)
            return handler
        m.switch_controller.process_switch("s_start", 1, logical=True)
        rig.run_ready()
        m.switch_controller.process_switch("s_start", 0, logical=True)
        rig.advance(0.5)
        if m.game is None or not any(e[0] == "ball_started" for e in log):
            return Result(None, ["game did not start"], False, excluded="game did not start")
        ev.add_handler("mode_me_starting", mk_wait(case["d_start"]), priority=5)
        ev.add_handler("ball_ending", mk_wait(case["d_ball"]), priority=1000)
        ev.add_handler("mode_game_stopping", mk_wait(case["d_ball"]), priority=1000)
        ev.add_handler("mode_me_stopping", mk_wait(case["d_stop"]), priority=5)
        mark = len(log)
        if case["start_how"] == "call":
            me.start()
        else:
            ev.post("start_me")
        rig.advance(case["x"] / 1000.0)
        if me.starting or (me.active and not any(e[0] == "mode_me_started" for e in log[mark:])):
            classes.add("ball ends while the game mode is still starting")
        if case["ender"] == "drain":
            ev.post_relay("ball_drain", balls=m.game.balls_in_play)
        else:
            m.game.end_game()
        m.playfield.balls = 0
        m.playfield.available_balls = 0
        rig.advance(0.3)
        for _ in range(20):
            if not pending[0]:
                break
            rig.advance(0.1)
        rig.advance(2.0)
        tail = log[mark:]
        names = [e[0] for e in tail]
        if case["ender"] == "drain":
            if names.count("ball_ended") != 1:
                vio.append(violation("ball-ending-never-completed", "ball_ending was posted with all waits cleared but "
                                     "ball_ended was posted %d times within 2 s (events %r)" % (names.count("ball_ended"), tail)))
            elif "ball_started" not in names[names.index("ball_ended"):] and "game_ended" not in names:
                vio.append(violation("game-stalled-after-ball-end", "after ball_ended neither the next ball nor the end of "
                                     "the game followed (events %r)" % (tail,)))
        else:
            if "game_ended" not in names or m.game is not None:
                vio.append(violation("game-stopping-never-completed", "end_game: mode_game_stopping did not complete, "
                                     "game_ended missing 2 s after all waits were cleared (events %r)" % (tail,)))
        if me.active and not me.stopping:
            # (a game mode that was still starting when the ball ended carries on into the next ball: observed, but
            # outside what C02 states - only the completion of the queue events is asserted here)
            classes.add("game mode still running after the ball ended")
        if rig.exceptions and not vio:
            vio.append(violation("loop-exception", "exception reached the loop: %s" % rig.exception_summaries()[:2]))
        if "mode_me_will_start" in names:
            classes.add("game mode started")
        if case["align"] and case["d_start"] >= case["d_ball"]:
            classes.add("both waits cleared at the same instant")
    nontrivial = "ball ends while the game mode is still starting" in classes
    return Result(vio or None, sorted(classes) or ["plain"], nontrivial)


# ---- ball_ending over several balls with two game modes -------------------------------------------------------------
case_ballend2 = st.tuples(st.integers(2, 3), st.sampled_from([0, 5, 20, 50]), st.sampled_from([0, 5, 20]),
                          st.lists(st.sampled_from(["both", "both", "me", "mf"]), min_size=3, max_size=3)).map(
    lambda t: {"balls": t[0], "d_me": t[1], "d_mf": t[2], "modes": t[3]})


def check_ballend2(case):
    """Several balls in a row, two game modes that stop at every ball end, waits on their stopping events: ball_ending
    must not complete (ball_ended) before every mode that was running has stopped - on every ball, not only the first."""
    vio = []
    classes = set()
    with Rig("modes7", base="fakegame") as rig:
        m = rig.machine
        ev = m.events

        def _add_ball(**kwargs):
            m.playfield.balls += 1
            m.playfield.available_balls += 1
        m.playfield.add_ball = _add_ball
        m.ball_controller.num_balls_known = 3
        log = []
        for n in ("ball_started", "ball_ending", "ball_ended", "game_ended", "mode_me_stopping", "mode_me_stopped",
                  "mode_mf_stopping", "mode_mf_stopped"):
            ev.add_handler(n, functools.partial(lambda name, **kwargs: log.append(name), n), priority=2000)

        def mk_wait(delay):
            def handler(queue, **kwargs):
                queue.wait()
                if delay == 0:
                    queue.clear()
                else:
                    m.clock.loop.call_later(delay / 1000.0, queue.clear)
            return handler
        ev.add_handler("mode_me_stopping", mk_wait(case["d_me"]), priority=5)
        ev.add_handler("mode_mf_stopping", mk_wait(case["d_mf"]), priority=5)
        m.switch_controller.process_switch("s_start", 1, logical=True)
        rig.run_ready()
        m.switch_controller.process_switch("s_start", 0, logical=True)
        rig.advance(0.5)
        if m.game is None:
            return Result(None, ["game did not start"], False, excluded="game did not start")
        for b in range(case["balls"]):
            if m.game is None:
                break
            which = case["modes"][b]
            running = []
            for name in ("me", "mf"):
                if which in ("both", name):
                    m.modes[name].start()
                    running.append(name)
            rig.advance(0.05)
            running = [n for n in running if m.modes[n].active]
            mark = len(log)
            ev.post_relay("ball_drain", balls=m.game.balls_in_play)
            m.playfield.balls = 0
            m.playfield.available_balls = 0
            rig.advance(0.6)
            sl = log[mark:]
            if sl.count("ball_ended") != 1:
                vio.append(violation("ballend2:ball-ended-count", "ball %d: ball_ended posted %d times within 600 ms of the "
                                     "drain (events %r)" % (b + 1, sl.count("ball_ended"), sl)))
                break
            for n in running:
                stopped = "mode_%s_stopped" % n
                if stopped not in sl or sl.index(stopped) > sl.index("ball_ended"):
                    vio.append(violation("ballend2:ball-ended-before-mode-stopped", "ball %d: ball_ending completed (ball_ended) "
                                         "before game mode %s had stopped although its stopping event was held for %d ms "
                                         "(events %r)" % (b + 1, n, case["d_" + n], sl)))
                    break
            if vio:
                break
            if b >= 1 and len(running) == 2:
                classes.add("two modes stop at the end of a later ball")
        if rig.exceptions and not vio:
            vio.append(violation("loop-exception", "exception reached the loop: %s" % rig.exception_summaries()[:2]))
    return Result(vio or None, sorted(classes) or ["plain"], bool(classes))


# ---- queue_relay_player: queue events held until another event arrives, in several contexts at once -------------------
rp_op = st.one_of(
    st.tuples(st.just("post"), st.sampled_from(["a", "b", "c"])).map(list),
    st.tuples(st.just("post"), st.sampled_from(["a", "b", "c"])).map(list),
    st.tuples(st.just("done"), st.sampled_from(["a", "b", "c"])).map(list),
    st.tuples(st.just("done"), st.sampled_from(["a", "b", "c"])).map(list),
    st.tuples(st.just("mode"), st.sampled_from(["start", "stop"])).map(list),
    st.tuples(st.just("advance"), st.sampled_from([0, 1, 10])).map(list),
)
case_relayplayer = st.fixed_dictionaries({"ops": st.lists(rp_op, min_size=3, max_size=30)})


def check_relayplayer(case):
    """queue_relay_player entries in the machine config (q_a, q_b) and in a mode (q_c): a relayed queue event completes
    exactly once, when its wait_for event arrives (or, for the mode's relay, when the mode stops) and not before;
    relays of other contexts are not affected."""
    patches = {"queue_relay_player": {"q_a": {"post": "a_started", "wait_for": "a_done"},
                                      "q_b": {"post": "b_started", "wait_for": "b_done", "pass_args": True}}}
    mp = {"mp": {"queue_relay_player": {"q_c": {"post": "c_started", "wait_for": "c_done"}}}}
    vio = []
    classes = set()
    with Rig("qmodes", patches=patches, mode_patches=mp) as rig:
        m = rig.machine
        ev = m.events
        done = []
        started = []
        for x in "abc":
            ev.add_handler("%s_started" % x, functools.partial(lambda n, **kwargs: started.append(n), x))
        pending = {"a": [], "b": [], "c": []}
        exp_done = []
        nid = [0]
        for o in case["ops"]:
            if vio:
                break
            k = o[0]
            if k == "post":
                x = o[1]
                i = nid[0]
                nid[0] += 1
                n0 = len(started)
                held = x in "ab" or m.modes["mp"].active
                ev.post_queue("q_" + x, callback=functools.partial(lambda j, **kwargs: done.append(j), i))
                rig.run_ready()
                if held:
                    pending[x].append(i)
                    if started[n0:] != [x]:
                        vio.append(violation("relayplayer:post-event", "q_%s was relayed but %s_started was posted %r" % (
                            x, x, started[n0:])))
                    if sum(len(v) for v in pending.values()) >= 2 and len([v for v in pending.values() if v]) >= 2:
                        classes.add("relays of two contexts pending together")
                else:
                    exp_done.append(i)
            elif k == "done":
                x = o[1]
                ev.post("%s_done" % x)
                rig.run_ready()
                exp_done += pending[x]
                pending[x] = []
            elif k == "mode":
                if o[1] == "start":
                    ev.post("start_mp")
                    rig.run_ready()
                else:
                    was = m.modes["mp"].active
                    ev.post("stop_mp")
                    rig.run_ready()
                    if was:
                        if pending["c"]:
                            classes.add("mode stops with its relay pending")
                        exp_done += pending["c"]
                        pending["c"] = []
            elif k == "advance":
                rig.advance(o[1] / 1000.0)
            if sorted(done) != sorted(exp_done):
                vio.append(violation("relayplayer:completion", "after %r the relayed queue events that completed are %r, expected %r "
                                     "(still held: %r)" % (o, sorted(done), sorted(exp_done), pending)))
            if rig.exceptions and not vio:
                vio.append(violation("loop-exception", "exception reached the loop: %s" % rig.exception_summaries()[:2]))
        if not vio:
            for x in "abc":
                ev.post("%s_done" % x)
            rig.run_ready()
            exp_done += pending["a"] + pending["b"] + pending["c"]
            if sorted(done) != sorted(exp_done):
                vio.append(violation("relayplayer:never-released", "after every wait_for event was posted the completed events are "
                                     "%r, expected %r" % (sorted(done), sorted(exp_done))))
    return Result(vio or None, sorted(classes) or ["plain"], bool(classes))


# ---- queue events whose handlers have conditions over global state: a condition is read when the handler's turn comes ----
QC_CONDS = [None, "machine.cx==0", "machine.cx>0", "machine.cx==1", "machine.cx!=2"]
qc_handler = st.tuples(st.integers(-2, 2), st.sampled_from(QC_CONDS), st.sampled_from([None, None, 0, 1, 2]),
                       st.sampled_from([0, 0, 5, 20])).map(list)
case_qcond = st.tuples(st.integers(0, 2), st.lists(qc_handler, min_size=2, max_size=6),
                       st.lists(st.tuples(st.sampled_from([3, 13, 27, 44]), st.integers(0, 2)).map(list), max_size=3,
                                unique_by=lambda x: x[0]),
                       st.sampled_from(["queue", "queue", "queue_async"])).map(
    lambda t: {"cx0": t[0], "handlers": t[1], "top": sorted(t[2]), "kind": t[3]})


def check_qcond(case):
    """Reference: walk the handlers in priority order (ties in registration order); the variable changes made by earlier
    handlers and by the outside world while a handler holds the queue are in effect when the next condition is read."""
    vio = []
    classes = set()
    hs = case["handlers"]
    # ---- reference
    order = sorted(range(len(hs)), key=lambda i: -hs[i][0])
    t, cx = 0.0, case["cx0"]
    top = list(case["top"])
    exp = []
    for i in order:
        while top and top[0][0] <= t:
            cx = top.pop(0)[1]
        prio, cond, setv, wait = hs[i]
        ok = True if cond is None else bool(eval(cond.replace("machine.cx", "cx"), {"__builtins__": {}}, {"cx": cx}))   # pylint: disable=eval-used
        if ok:
            exp.append((i, t))
            if setv is not None:
                if setv != cx:
                    classes.add("a handler changed what a later condition reads")
                cx = setv
            if wait:
                if any(t < tt <= t + wait for tt, _ in top):
                    classes.add("the variable changed while a handler held the queue")
                t += wait
    end_t = t
    with Rig("events") as rig:
        m = rig.machine
        m.variables.set_machine_var("cx", case["cx0"])
        rig.advance(0.01)
        got, done = [], []
        T0 = [0.0]

        def ms():
            return round((rig.now - T0[0]) * 1000, 3)

        def mk(i):
            def h(queue, **kwargs):
                got.append((i, ms()))
                if hs[i][2] is not None:
                    m.variables.set_machine_var("cx", hs[i][2])
                if hs[i][3]:
                    queue.wait()
                    rig.loop.call_later(hs[i][3] / 1000.0, queue.clear)
            return h
        for i, (prio, cond, _s, _w) in enumerate(hs):
            m.events.add_handler("qe" + ("{%s}" % cond if cond else ""), mk(i), prio)
        T0[0] = rig.now
        for tt, val in case["top"]:
            rig.loop.call_later(tt / 1000.0, m.variables.set_machine_var, "cx", val)
        if case["kind"] == "queue":
            m.events.post_queue("qe", lambda **kwargs: done.append(ms()))
        else:
            fut = m.events.post_queue_async("qe")
            fut.add_done_callback(lambda f: done.append(ms()))
        rig.advance(0.5)
        exc = rig.exception_summaries()
    if exc:
        vio.append(violation("loop-exception", "exception reached the loop: %s" % exc[:2]))
    elif [g[0] for g in got] != [e[0] for e in exp]:
        vio.append(violation("qcond:wrong-handlers", "queue event with handlers (priority, condition, sets cx, waits ms) %r, cx=%d at the "
                             "post, outside changes %r: handlers %r ran, the reference gives %r" % (
                                 hs, case["cx0"], case["top"], got, exp)))
    elif any(abs(g[1] - e[1]) > 0.01 for g, e in zip(got, exp)):
        vio.append(violation("qcond:wrong-times", "handlers ran at %r, expected %r" % (got, exp)))
    elif len(done) != 1 or abs(done[0] - end_t) > 0.01:
        vio.append(violation("qcond:callback", "the queue event's completion was reported %r (ms), expected once at %r" % (done, end_t)))
    return Result(vio or None, sorted(classes) or ["plain"], bool(classes))


SUBCHECKS = [
    SubCheck("relay", lambda: case_relay, check_relay, quick=1500, thorough=40000, procs_quick=3),
    SubCheck("programs", lambda: evprog.program(queue=True).map(fix_program), check_programs, quick=2000, thorough=60000,
             procs_quick=8),
    SubCheck("qcond", lambda: case_qcond, check_qcond, quick=1500, thorough=30000, procs_quick=4),
    SubCheck("modes", lambda: case_modes, check_modes, quick=600, thorough=10000, procs_quick=4),
    SubCheck("ballend", lambda: case_ballend, check_ballend, quick=600, thorough=4000, procs_quick=4),
    SubCheck("ballend2", lambda: case_ballend2, check_ballend2, quick=300, thorough=2000, procs_quick=4),
    SubCheck("relayplayer", lambda: case_relayplayer, check_relayplayer, quick=600, thorough=6000, procs_quick=4),
]
