"""C11 — Player state is isolated per player and restored on their next turn."""
import copy
import functools

from hypothesis import strategies as st

from vlib.engine import Result, SubCheck, violation
from vlib.rig import Rig

PROPERTY = "C11"
LEVEL = "exploration"
RULE = ("A case is a multi-player game history on a machine whose game modes contain persisted counters, an accrual, "
        "sequences, a shot with a three-state profile, an achievement, a timer with a timed pause and variable_player "
        "entries: start presses (1-4 players), scoring / progress events, shot hits, achievement events, a second game "
        "mode started and stopped by hand, drains, extra balls, early game end followed by a new game. Non-trivial = "
        ">= 2 players whose recorded progress differs at some turn change, across >= 2 turn changes. Distinct = "
        "distinct case hash.")
ASSUMPTIONS = [
    "ball hardware faked as in MpfFakeGameTestCase",
    "achievements follow their documented next-ball mapping (started -> stopped unless restart_on_next_ball_when_started, "
    "enabled kept if enable_on_next_ball_when_enabled); timers have no persistence option, only isolation is asserted "
    "for their tick variable",
    "restore compares the state just before the drain that ends a turn with the state 100 ms after the player's next "
    "ball_started",
]
EVENTS = ["hit_cnt", "hit_cnt", "cnt_off", "cnt_on", "acc_1", "acc_2", "acc_3", "seq_1", "seq_2", "seq_3", "shot_on", "shot_off",
          "ach_enable", "ach_start", "ach_stop", "ach_complete", "ach_disable", "ach_reset", "pause_tim", "start_timr", "pause_timr",
          "score_100", "score_100", "add_custom", "set_name", "start_gm2", "start_gm2", "stop_gm2", "start_gm3", "stop_gm3", "q_1", "q_1", "q_2", "q_3",
          "pause_q", "pause_q", "hit_sg1", "hit_sg2", "hit_sg3", "grp_rotate", "grp_rotate", "grp_rotate", "grp_rot_off"]
op = st.one_of(
    st.tuples(st.just("ev"), st.sampled_from(EVENTS)).map(list),
    st.tuples(st.just("ev"), st.sampled_from(EVENTS)).map(list),
    st.tuples(st.just("ev"), st.sampled_from(EVENTS)).map(list),
    st.tuples(st.just("ev"), st.sampled_from(EVENTS)).map(list),
    st.just(["shot"]), st.just(["shot"]),
    st.just(["drain"]), st.just(["drain"]), st.just(["drain"]),
    st.just(["extra_ball"]),
    st.just(["add_player"]),
    st.just(["end_game"]),
    st.tuples(st.just("advance"), st.sampled_from([10, 60, 300, 2500])).map(list),
)
def _quest(t):
    """Directed history: a restart_on_next_ball mode is started, carried over one or more ball ends, finished by its
    player on a later ball - and two more balls follow (three balls per game)."""
    players, who_stops, mid, tail = t
    d = [["drain"]] * players
    ops = [["ev", "start_gm3"]] + mid[:2] + d + [["ev", "hit_cnt"]] + d[:who_stops] + [["ev", "stop_gm3"]] + mid[2:] + d + [
        ["advance", 60]] + d + tail
    return {"players": players, "ops": ops}


_general = st.fixed_dictionaries({
    "players": st.integers(1, 4),
    "ops": st.lists(op, min_size=6, max_size=70),
})
_quests = st.tuples(st.integers(1, 2), st.integers(0, 1), st.lists(op, max_size=4), st.lists(op, max_size=10)).map(_quest)
case_strategy = st.sampled_from([0, 0, 0, 0, 1]).flatmap(lambda k: [_general, _quests][k])
TRACKED = ["score", "pv_custom", "pv_name"]


def plain(v):
    if hasattr(v, "value") and hasattr(v, "enabled") and hasattr(v, "completed"):
        return ("LBS", copy.deepcopy(v.value), bool(v.enabled), bool(v.completed))
    if isinstance(v, list) and any(hasattr(x, "machine") for x in v):
        return [getattr(x, "name", repr(x)) for x in v]       # e.g. restart_modes_on_next_ball: a list of modes
    if isinstance(v, (list, dict, set)):
        return copy.deepcopy(v)
    return v


def pvars(player):
    return {k: plain(v) for k, v in player.vars.items()}


def check(case):
    vio = []
    classes = set()

    def v(sig, msg):
        if len(vio) < 5:
            vio.append(violation(sig, msg))
    with Rig("players11", base="fakegame") as rig:
        m = rig.machine
        ev = m.events
        frozen = {}            # player number -> vars snapshot at the end of their turn
        end_state = {}         # player number -> device observation before the drain that ended their last ball
        fresh = [None]
        known = {}
        turn_changes = [0]
        ever_diff = [False]

        def observe():
            d = {}
            for coll, names in (("counters", ["cnt_p", "cnt_q"]), ("accruals", ["acc_p", "acc_q"]),
                                ("sequences", ["seq_p", "seq_q"])):
                for n in names:
                    dev = getattr(m, coll)[n]
                    if dev._state is not None:      # pylint: disable=protected-access
                        d[n] = (copy.deepcopy(dev.value), bool(dev.enabled), bool(dev.completed))
            sh = m.shots["shot_p"]
            if m.modes["gm"].active:
                d["shot_p"] = (sh.state, bool(sh.enabled))
                d["ach_p"] = m.achievements["ach_p"].state
            return d

        def persisted(player):
            """Player-side record of everything configured to persist (independent of which mode is loaded)."""
            pv = pvars(player)
            return {k: pv.get(k) for k in ("cnt_p_state", "acc_p_state", "seq_p_state", "cnt_q_state", "acc_q_state",
                                           "seq_q_state", "shot_shot_p", "shot_shot_p_enabled", "achievements",
                                           "score", "pv_custom", "pv_name")}

        def on_turn_ended(player, **kwargs):
            frozen[player.number] = pvars(player)
            turn_changes[0] += 1
            others = [persisted(p) for p in m.game.player_list if p.number != player.number]
            mine = persisted(player)
            for o in others:
                o2 = dict(o)
                m2 = dict(mine)
                if o2 != m2:
                    ever_diff[0] = True

        def on_turn_will_start(player, **kwargs):
            # the player's variables must be what they were when their last turn ended
            snap = frozen.pop(player.number, None)
            if snap is not None:
                now = pvars(player)
                if now != snap:
                    diff = {k: (snap.get(k), now.get(k)) for k in set(snap) | set(now) if snap.get(k) != now.get(k)}
                    v("changed-during-other-turn", "player %d's variables changed while it was not their turn: %r" % (
                        player.number, diff))
        ev.add_handler("player_turn_ended", on_turn_ended, priority=-1000)
        ev.add_handler("player_turn_will_start", on_turn_will_start, priority=100000)

        def on_var(name, value, prev_value, change, player_num, **kwargs):
            key = (player_num, name)
            if key in known and known[key] != prev_value:
                v("event-prev-value:" + name, "player_%s for player %r reports prev_value %r but the last value announced was %r" % (
                    name, player_num, prev_value, known[key]))
            if isinstance(value, (int, float)) and isinstance(prev_value, (int, float)) and not isinstance(value, bool):
                if change != value - prev_value:
                    v("event-change:" + name, "player_%s: value %r prev %r change %r" % (name, value, prev_value, change))
            known[key] = value
            g = m.game
            announcement = value == prev_value and not change      # the broadcast of all variables when a player is added
            if g is not None and g.player is not None and player_num != g.player.number and not announcement:
                v("event-wrong-player:" + name, "player_%s posted for player %r during player %r's turn (value %r prev %r)" % (
                    name, player_num, g.player.number, value, prev_value))
        _adding = [False]
        for name in TRACKED + ["gm_tim_p_tick", "gm2_tim_q_tick"]:
            ev.add_handler("player_" + name, functools.partial(on_var, name), priority=-1000)
        ev.add_handler("player_adding", lambda **kwargs: _adding.__setitem__(0, True), priority=100000)
        ev.add_handler("player_added", lambda **kwargs: _adding.__setitem__(0, False), priority=-100000)

        def check_isolation(where):
            g = m.game
            if g is None:
                return
            for p in g.player_list:
                if g.player is not None and p.number == g.player.number:
                    continue
                snap = frozen.get(p.number)
                if snap is None:
                    continue
                now = pvars(p)
                if now != snap:
                    diff = {k: (snap.get(k), now.get(k)) for k in set(snap) | set(now) if snap.get(k) != now.get(k)}
                    v("changed-during-other-turn", "player %d's variables changed during player %r's turn (%s): %r" % (
                        p.number, g.player.number if g.player else None, where, diff))
                    frozen[p.number] = now

        def check_events(where):
            g = m.game
            if g is None:
                return
            for p in g.player_list:
                for name in TRACKED:
                    key = (p.number, name)
                    if key in known and p.vars.get(name) != known[key]:
                        v("change-without-event:" + name, "player %d's %s is %r but the last player_%s event announced %r (%s)" % (
                            p.number, name, p.vars.get(name), name, known[key], where))
                        known[key] = p.vars.get(name)

        def start_game():
            known.clear()
            frozen.clear()
            end_state.clear()
            quest_at_end.clear()
            rig.case.start_game()
            rig.advance(0.15)
            for _ in range(case["players"] - 1):
                hit_start()
            rig.advance(0.1)
            obs = (observe(), {k: val for k, val in persisted(m.game.player).items()})
            if fresh[0] is None:
                fresh[0] = obs
            elif obs != fresh[0]:
                v("new-game-not-fresh", "a new game starts player 1 with %r, the first game started with %r" % (obs, fresh[0]))

        def hit_start():
            m.switch_controller.process_switch("s_start", 1, logical=True)
            rig.run_ready()
            m.switch_controller.process_switch("s_start", 0, logical=True)
            rig.advance(0.05)

        quest_at_end = {}

        def drain():
            g = m.game
            if g is None or g.balls_in_play <= 0:
                return
            p = g.player
            pn = p.number
            end_state[pn] = (observe(), persisted(p), m.modes["gm2"].active)
            quest_at_end[pn] = m.modes["gm3"].active
            had_extra = p.extra_balls > 0
            ball = p.ball
            rig.case.drain_all_balls() if False else None
            ev.post_relay("ball_drain", balls=g.balls_in_play)
            m.playfield.balls = 0
            m.playfield.available_balls = 0
            rig.advance(1.2)
            g = m.game
            if g is None:
                return
            # whoever is up now: if they played before, their persisted state must be back
            np_ = g.player
            if np_ is not None and np_.number in end_state and not vio:
                exp_obs, exp_pers, gm2_was = end_state[np_.number]
                # a restart_on_next_ball mode belongs to the player who was in it: running at their next ball iff it was
                # running when their previous ball ended (a mode they finished stays finished)
                if m.modes["gm3"].active != quest_at_end[np_.number]:
                    v("restart-on-next-ball-mode:" + ("running" if m.modes["gm3"].active else "missing"),
                      "player %d ball %d: mode gm3 (restart_on_next_ball) is %s but it was %s at the end of this player's "
                      "previous ball" % (np_.number, np_.ball, "running" if m.modes["gm3"].active else "not running",
                                         "running" if quest_at_end[np_.number] else "not running"))
                if quest_at_end[np_.number]:
                    classes.add("quest mode carried to the next ball")
                got_pers = persisted(np_)
                exp_m = dict(exp_pers)
                # documented achievement mapping on the next ball
                ach = copy.deepcopy(exp_m.get("achievements"))
                if isinstance(ach, dict) and "ach_p" in ach and ach["ach_p"][0] == "started":
                    ach["ach_p"][0] = "stopped"
                exp_m["achievements"] = ach
                if got_pers != exp_m:
                    diff = {k: (exp_m.get(k), got_pers.get(k)) for k in exp_m if exp_m.get(k) != got_pers.get(k)}
                    v("not-restored:" + ",".join(sorted(diff))[:60], "player %d starts their next ball with persisted state differing "
                      "from the end of their previous ball (expected, got): %r" % (np_.number, diff))
                got_obs = observe()
                for k2, val in exp_obs.items():
                    if k2 in ("ach_p",):
                        continue
                    if k2 in ("cnt_q", "acc_q", "seq_q"):
                        continue        # gm2 is started by hand: its devices are only loaded while it runs
                    if k2 in got_obs and got_obs[k2] != val:
                        v("device-not-restored:" + k2, "device %s shows %r at player %d's next ball, it showed %r at the end of "
                          "their previous ball" % (k2, got_obs[k2], np_.number, val))
            del had_extra, ball

        # ---- shot group model: lit/unlit states belong to the player, the position in the rotation pattern and the
        # rotation switch start afresh with every ball (the group is a mode device of the game mode)
        grp = {"sg": {}, "pos": 0, "rot": True, "ball": None}
        ball_seq = [0]
        ev.add_handler("ball_starting", lambda **kwargs: ball_seq.__setitem__(0, ball_seq[0] + 1), priority=10000)

        def grp_step(evname):
            g_ = m.game
            if g_ is None or g_.player is None or not m.modes["gm"].active:
                return
            pn_ = g_.player.number
            pl = g_.player                  # Player objects are per game (machine.game is one re-used mode object)
            key = (id(pl), ball_seq[0])
            if grp["ball"] != key:
                grp["ball"], grp["pos"], grp["rot"] = key, 0, True
            for ent in grp["sg"].setdefault("list", []):
                if ent[0] is pl:
                    sg = ent[1]
                    break
            else:
                sg = [0, 0, 0]
                grp["sg"]["list"].append((pl, sg))
            if evname in ("hit_sg1", "hit_sg2", "hit_sg3"):
                i = int(evname[-1]) - 1
                sg[i] = min(1, sg[i] + 1)
            elif evname == "grp_rot_off":
                grp["rot"] = False
            elif evname == "grp_rotate" and grp["rot"]:
                d = "rl"[grp["pos"] % 2]
                grp["pos"] += 1
                sg[:] = [sg[2], sg[0], sg[1]] if d == "r" else [sg[1], sg[2], sg[0]]
                classes.add("shot group rotated")
            got = [g_.player["shot_sg%d" % (i + 1)] for i in range(3)]
            if got != sg:
                v("shot-group-state", "after %s player %d's shot group shows %r, their own history (states kept per player, "
                  "rotation pattern r,l and rotation switch fresh with every ball) gives %r" % (evname, pn_, got, sg))

        start_game()
        for o in case["ops"]:
            if vio:
                break
            k = o[0]
            try:
                if m.game is None:
                    start_game()
                    classes.add("second-game")
                if k == "ev":
                    ev.post(o[1])
                    rig.run_ready()
                    if o[1].startswith(("hit_sg", "grp_")):
                        grp_step(o[1])
                elif k == "shot":
                    m.switch_controller.process_switch("s_shot", 1, logical=True)
                    rig.run_ready()
                    m.switch_controller.process_switch("s_shot", 0, logical=True)
                    rig.run_ready()
                elif k == "drain":
                    drain()
                elif k == "extra_ball":
                    if m.game.player is not None and m.game.balls_in_play > 0:
                        m.game.player.extra_balls += 1
                        classes.add("extra-ball")
                elif k == "add_player":
                    hit_start()
                elif k == "end_game":
                    m.game.end_game()
                    m.playfield.balls = 0
                    m.playfield.available_balls = 0
                    rig.advance(1.5)
                    classes.add("early-game-end")
                elif k == "advance":
                    rig.advance(o[1] / 1000.0)
            except Exception as e:   # pylint: disable=broad-except
                import traceback
                v("exception:" + type(e).__name__, "operation %r raised %r\n%s" % (o, e, traceback.format_exc()[-1000:]))
                break
            check_isolation("after %r" % (o,))
            check_events("after %r" % (o,))
            if rig.exceptions:
                v("loop-exception", "exception reached the loop after %r: %s" % (o, rig.exception_summaries()[:2]))
        nplayers = len(m.game.player_list) if m.game else case["players"]
    if nplayers >= 2:
        classes.add(">=2-players")
    nontrivial = ever_diff[0] and turn_changes[0] >= 2
    if nontrivial:
        classes.add("differing-progress-across-turns")
    return Result(vio or None, sorted(classes) or ["plain"], nontrivial)


# ---- every player's first ball is the same ball: identical inputs give identical records ------------------------------
TWIN_EVENTS = ["hit_cnt", "cnt_off", "cnt_on", "acc_1", "acc_2", "seq_1", "seq_2", "shot_on", "shot_off", "ach_enable",
               "ach_start", "ach_complete", "hit_sg1", "hit_sg2", "grp_rotate", "grp_rotate", "grp_rot_off", "ag_select",
               "ag_rotate", "ag_rotate", "ag_start", "ag_complete1", "pause_tim", "start_timr", "pause_timr", "score_100", "add_custom", "SHOT"]
case_twin = st.fixed_dictionaries({
    "players": st.integers(2, 3),
    "seq": st.lists(st.one_of(st.sampled_from(TWIN_EVENTS), st.sampled_from([10, 60, 300, 1000]).map(lambda a: "ADV%d" % a)),
                    min_size=3, max_size=25),
    # what the players before did differently at the end of their ball (must not matter to the next player)
    "extra": st.lists(st.sampled_from(TWIN_EVENTS), max_size=6),
    "second_game": st.booleans(),
})


OFFSET = 2.023


def check_twin(case):
    """All players (and the first player of the next game) get the same inputs on their first ball. Everything that is
    kept per player must then be identical at the end of that ball: whatever differs was carried over from another
    player's turn or from the previous game."""
    vio = []
    classes = set()
    with Rig("players11", base="fakegame") as rig:
        m = rig.machine
        ev = m.events

        def record(p):
            pv = pvars(p)
            return {k: v for k, v in pv.items() if k not in ("number", "index")}

        def play(seq):
            for e in seq:
                if e == "SHOT":
                    m.switch_controller.process_switch("s_shot", 1, logical=True)
                    rig.run_ready()
                    m.switch_controller.process_switch("s_shot", 0, logical=True)
                    rig.run_ready()
                elif e.startswith("ADV"):
                    rig.advance(int(e[3:]) / 1000.0)
                else:
                    ev.post(e)
                    rig.run_ready()

        started = []
        ev.add_handler("mode_gm_started", lambda **kwargs: started.append(rig.loop.time()))

        def align():
            """Every compared ball begins its inputs exactly OFFSET after its mode started (the timers tick with the
            virtual clock; the offset keeps all inputs 3 ms or more away from a 50 ms tick boundary)."""
            if started:
                rig.advance(max(0.0, OFFSET - (rig.loop.time() - started[-1])))

        def drain():
            n = len(started)
            ev.post_relay("ball_drain", balls=m.game.balls_in_play)
            m.playfield.balls = 0
            m.playfield.available_balls = 0
            for _ in range(100):           # until the next ball (or the end of the game); leftovers of this turn stay pending
                if len(started) > n or m.game is None:
                    break
                rig.advance(0.05)

        def start_game(n):
            rig.case.start_game()
            rig.advance(0.15)
            for _ in range(n - 1):
                m.switch_controller.process_switch("s_start", 1, logical=True)
                rig.run_ready()
                m.switch_controller.process_switch("s_start", 0, logical=True)
                rig.advance(0.05)
            rig.advance(0.1)
        start_game(case["players"])
        records = []
        for i in range(case["players"]):
            if m.game is None or m.game.player is None or m.game.player.number != i + 1 or m.game.player.ball != 1:
                break
            align()
            play(case["seq"])
            records.append((i + 1, record(m.game.player)))
            play(case["extra"][: 2 * (i + 1)])      # the players differ in what they do afterwards
            drain()
        if case["second_game"] and m.game is not None:
            m.game.end_game()
            m.playfield.balls = 0
            m.playfield.available_balls = 0
            rig.advance(1.5)
            if m.game is None:
                start_game(1)
                align()
                play(case["seq"])
                records.append(("1 of the next game", record(m.game.player)))
                classes.add("second-game")
        base = records[0][1] if records else None
        for who, rec in records[1:]:
            if rec != base:
                diff = {k: (base.get(k), rec.get(k)) for k in set(base) | set(rec) if base.get(k) != rec.get(k)}
                vio.append(violation("twin:first-ball-differs:" + ",".join(sorted(diff))[:60],
                                     "player 1 and player %s got the same inputs %r on their first ball but their records "
                                     "differ (player 1, other): %r" % (who, case["seq"], diff)))
                break
        if rig.exceptions and not vio:
            vio.append(violation("loop-exception", "exception reached the loop: %s" % rig.exception_summaries()[:2]))
        if len(records) >= 2:
            classes.add("%d first balls compared" % len(records))
    return Result(vio or None, sorted(classes) or ["plain"], len(records) >= 2)


SUBCHECKS = [
    SubCheck("game", lambda: case_strategy, check, quick=2500, thorough=40000, procs_quick=8),
    SubCheck("twin", lambda: case_twin, check_twin, quick=800, thorough=12000, procs_quick=6),
]
