"""C13 — Delays and periodic timers fire exactly when promised, or never."""
import functools

from hypothesis import strategies as st

from vlib.engine import Result, SubCheck, violation
from vlib.loops import make_jitter_loop
from vlib.rig import Rig

PROPERTY = "C13"
LEVEL = "exploration"
RULE = ("delays: histories of add/add_if_doesnt_exist/reset/remove/clear/run_now/check/advance (and mode stop/start for "
        "a mode-owned manager) over names {a,b,c,anonymous}, durations biased to coincide with advances, callbacks that "
        "themselves operate on delays, on a loop whose timer wake-ups are late by generated amounts; non-trivial = an "
        "operation hits a name with a pending delay, or a callback operates on delays, or run_now hits a pending delay. "
        "periodic: schedule_interval tasks (1-500 ms) with cancels under jitter; non-trivial = >= 20 ticks observed or a "
        "cancel while ticking. timer: start/stop/pause/add/subtract/jump/interval-change/restart/reset histories on a "
        "generated timer device; non-trivial = pause/resume, interval change while running, or completion. Distinct = "
        "distinct case hash.")
ASSUMPTIONS = [
    "lateness of loop wake-ups is bounded by the generated J (<= 4 ms) and applied per wake-up",
    "a delay whose deadline coincides (within 1 us) with the instant of an operation may fire before or after it",
    "timer device: phase restarts on interval change/jump and the extra tick event at start follow the code, the "
    "statement being silent; the oracle enforces only: one count change per interval at s+k*I (+J), none while "
    "paused/stopped, completion exactly when the count reaches the end value",
    "timer configs where the start value already satisfies the end condition are excluded (restart_on_complete would "
    "recurse without bound)",
]
EPS = 1e-6
NAMES = ["a", "b", "c"]
MS = [0, 1, 5, 10, 10, 20, 50, 100]
kw = st.dictionaries(st.sampled_from(["x", "y"]), st.integers(0, 3), max_size=2)
jitter = st.lists(st.sampled_from([0, 0, 1, 2, 4]), min_size=1, max_size=5)


def _ops(depth):
    name = st.sampled_from(NAMES)
    script = st.just([]) if depth == 0 else st.deferred(lambda: st.lists(_ops(0), max_size=3))
    alts = [
        st.tuples(st.just("add"), st.one_of(name, name, st.none()), st.sampled_from(MS), kw, script),
        st.tuples(st.just("add_if"), name, st.sampled_from(MS), kw, script),
        st.tuples(st.just("reset"), name, st.sampled_from(MS), kw, script),
        st.tuples(st.just("remove"), name),
        st.tuples(st.just("run_now"), name),
        st.tuples(st.just("run_now"), name),
        st.tuples(st.just("check"), name),
        st.tuples(st.just("clear")),
    ]
    if depth > 0:
        alts += [st.tuples(st.just("advance"), st.sampled_from([0, 1, 4, 5, 9, 10, 11, 20, 50, 100])),
                 st.tuples(st.just("advance"), st.sampled_from([0, 1, 4, 5, 9, 10, 11, 20, 50, 100])),
                 st.tuples(st.just("mode_cycle")),
                 # the stop of the mode is held up by a queue wait on mode_m1_stopping (an outro); meanwhile time passes and
                 # delays are asked about / asked to run
                 st.tuples(st.just("mode_cycle"), st.sampled_from([5, 20, 60, 150]),
                           st.lists(st.one_of(st.tuples(st.just("advance"), st.sampled_from([1, 5, 10, 20, 50])).map(list),
                                              st.tuples(st.just("run_now"), name).map(list),
                                              st.tuples(st.just("check"), name).map(list)), min_size=1, max_size=5))]
    return st.one_of(alts).map(list)


case_delays = st.fixed_dictionaries({
    "owner": st.sampled_from(["machine", "mode"]),
    "jitter": jitter,
    "ops": st.lists(_ops(1), min_size=2, max_size=25),
})


class DelayModel:
    def __init__(self, rig, dm, J):
        self.rig = rig
        self.dm = dm
        self.J = J
        self.pending = {}       # name -> dict(did, deadline, kw, script)
        self.vio = []
        self.n = 0
        self.fired = 0
        self.classes = set()
        self.running_now = None     # did being run by run_now
        self.depth = 0

    def v(self, sig, msg):
        self.vio.append(violation(sig, msg))

    # real callback ------------------------------------------------------------------------------
    def _cb(self, _did, **kwargs):
        t = self.rig.now
        ent = None
        for name, e in self.pending.items():
            if e["did"] == _did:
                ent = (name, e)
        if ent is None:
            self.v("fired-not-pending", "delay #%d fired at %.6f although it was removed, replaced, cleared or had "
                   "already fired (kwargs %r)" % (_did, t, kwargs))
            return
        name, e = ent
        if kwargs != e["kw"]:
            self.v("wrong-kwargs" + (":run_now" if self.running_now == _did else ""),
                   "delay %r (#%d) was called with %r, stored arguments were %r" % (name, _did, kwargs, e["kw"]))
        if self.running_now == _did:
            pass
        else:
            if t < e["deadline"] - EPS:
                self.v("fired-early", "delay %r fired at %.6f, deadline %.6f" % (name, t, e["deadline"]))
            if t > e["deadline"] + self.J + EPS:
                self.v("fired-late", "delay %r fired at %.6f, deadline %.6f, max lateness %.3f" % (
                    name, t, e["deadline"], self.J))
        del self.pending[name]
        self.fired += 1
        self.truthful("inside callback of %r" % name)
        if e["script"]:
            self.classes.add("callback-operates-on-delays")
        self.depth += 1
        try:
            for op in e["script"]:
                self.do(op)
        finally:
            self.depth -= 1

    def truthful(self, where):
        for n in list(NAMES) + [k for k in self.pending if k not in NAMES]:
            real = bool(self.dm.check(n))
            if real != (n in self.pending):
                self.v("check-untruthful" + (":in-callback" if self.depth or "inside" in where else ""),
                       "check(%r) returned %r %s but the delay is %s" % (
                           n, real, where, "pending" if n in self.pending else "not pending"))
                return

    def overdue(self):
        now = self.rig.now
        for name, e in list(self.pending.items()):
            if e["deadline"] + self.J + EPS < now:
                self.v("never-fired", "delay %r (#%d) with deadline %.6f has not fired by %.6f" % (
                    name, e["did"], e["deadline"], now))
                del self.pending[name]

    # operations ---------------------------------------------------------------------------------
    def _new(self, ms, kwargs, script):
        did = self.n
        self.n += 1
        return did, {"did": did, "deadline": self.rig.now + ms / 1000.0, "kw": dict(kwargs), "script": script}

    def do(self, op):
        k = op[0]
        if k in ("add", "add_if", "reset"):
            _, name, ms, kwargs, script = op
            did, ent = self._new(ms, kwargs, script)
            cb = functools.partial(self._cb, did)
            if name is not None and name in self.pending:
                self.classes.add("op-on-pending-name")
            if k == "add":
                ret = self.dm.add(ms, cb, name, **kwargs)
                key = name if name is not None else ret
                self.pending[key] = ent
            elif k == "add_if":
                self.dm.add_if_doesnt_exist(ms, cb, name, **kwargs)
                if name not in self.pending:
                    self.pending[name] = ent
            else:
                self.dm.reset(ms, cb, name, **kwargs)
                self.pending[name] = ent
        elif k == "remove":
            if op[1] in self.pending:
                self.classes.add("op-on-pending-name")
            self.dm.remove(op[1])
            self.pending.pop(op[1], None)
        elif k == "clear":
            if self.pending:
                self.classes.add("op-on-pending-name")
            self.dm.clear()
            self.pending.clear()
        elif k == "check":
            pass
        elif k == "run_now":
            name = op[1]
            e = self.pending.get(name)
            before = self.fired
            if e is not None:
                self.classes.add("run_now-pending")
                old = self.running_now
                self.running_now = e["did"]
                try:
                    self.dm.run_now(name)
                finally:
                    self.running_now = old
                if self.fired == before and not any(x["sig"].startswith("fired-not") for x in self.vio):
                    self.v("run_now-did-not-run", "run_now(%r) did not call the pending callback" % name)
                    self.pending.pop(name, None)
            else:
                self.dm.run_now(name)
        elif k == "advance":
            self.rig.advance(op[1] / 1000.0)
            self.overdue()
        elif k == "mode_cycle":
            pass    # handled by the driver
        self.truthful("after %s" % k)


def check_delays(case):
    J = max(case["jitter"]) / 1000.0
    loop_cls = make_jitter_loop([j / 1000.0 for j in case["jitter"]])
    with Rig("timers", loop_cls=loop_cls) as rig:
        if case["owner"] == "mode":
            rig.post("start_m1")
            rig.advance(0.01)
            mode = rig.machine.modes["m1"]
            dm = mode.delay
        else:
            from mpf.core.delays import DelayManager
            dm = DelayManager(rig.machine)
        model = DelayModel(rig, dm, J)
        for op in case["ops"]:
            if op[0] == "mode_cycle":
                if case["owner"] != "mode":
                    continue
                model.classes.add("mode-stop-with-pending" if model.pending else "mode-stop")
                if len(op) > 1:
                    # something holds the mode_m1_stopping queue: the mode has been told to stop, its end is still to come
                    held = []
                    key = rig.machine.events.add_handler("mode_m1_stopping", lambda queue, **kwargs: (queue.wait(), held.append(queue)))
                    if model.pending:
                        model.classes.add("stop-held-with-pending")
                    rig.machine.events.post("stop_m1")
                    rig.run_ready()
                    model.pending.clear()   # the owning mode stops: nothing may fire any more, check() says so, run_now runs nothing
                    model.truthful("after the stop of the mode was requested (the stop is held by a queue wait)")
                    for o in op[2]:
                        model.do(o)
                    rig.machine.events.remove_handler_by_key(key)
                    for q in held:
                        q.clear()
                    rig.advance(0.2)
                else:
                    rig.post("stop_m1")
                    rig.advance(0.005)
                    model.pending.clear()       # the owning mode stopped: nothing may fire any more
                    rig.advance(0.2)
                rig.post("start_m1")
                rig.advance(0.005)
                model.dm = rig.machine.modes["m1"].delay
                model.truthful("after mode restart")
                continue
            model.do(op)
        rig.advance(0.2)
        model.overdue()
        model.truthful("at end")
        exc = rig.exception_summaries()
    vio = model.vio
    if exc:
        vio.append(violation("loop-exception", "exception reached the loop: %s" % exc[:2]))
    classes = sorted(model.classes) + ["owner-" + case["owner"], "J=%dms" % max(case["jitter"])]
    nontrivial = bool(model.classes & {"op-on-pending-name", "callback-operates-on-delays", "run_now-pending",
                                       "mode-stop-with-pending", "stop-held-with-pending"})
    return Result(vio or None, classes, nontrivial)


# ------------------------------------------------------------------------------------------------
# periodic clock intervals
case_periodic = st.fixed_dictionaries({
    "jitter": jitter,
    "tasks": st.lists(st.fixed_dictionaries({
        "interval_ms": st.sampled_from([1, 2, 5, 10, 10, 33, 100, 500]),
        "start_ms": st.sampled_from([0, 0, 3, 10, 50]),
        "cancel_ms": st.one_of(st.none(), st.sampled_from([1, 5, 10, 20, 50, 100, 500, 1000])),
        "cancel_from_callback_at": st.one_of(st.none(), st.none(), st.integers(1, 6)),
    }), min_size=1, max_size=3),
    "run_ms": st.sampled_from([100, 300, 1000, 3000]),
})


def check_periodic(case):
    J = max(case["jitter"]) / 1000.0
    loop_cls = make_jitter_loop([j / 1000.0 for j in case["jitter"]])
    vio = []
    classes = set()
    with Rig("null", loop_cls=loop_cls) as rig:
        clock = rig.machine.clock
        loop = rig.loop
        tasks = []
        for i, t in enumerate(case["tasks"]):
            st_ = {"i": i, "spec": t, "ticks": [], "t0": None, "task": None, "cancel_t": None}
            tasks.append(st_)

            def tick(st_=st_):
                st_["ticks"].append(loop.time())
                c = st_["spec"]["cancel_from_callback_at"]
                if c is not None and len(st_["ticks"]) == c and st_["cancel_t"] is None:
                    clock.unschedule(st_["task"])
                    st_["cancel_t"] = loop.time()

            def start(st_=st_, tick=tick):
                st_["t0"] = loop.time()
                st_["task"] = clock.schedule_interval(tick, st_["spec"]["interval_ms"] / 1000.0)

            def cancel(st_=st_):
                if st_["task"] is not None and st_["cancel_t"] is None:
                    clock.unschedule(st_["task"])
                    st_["cancel_t"] = loop.time()
            loop.call_later(t["start_ms"] / 1000.0, start)
            if t["cancel_ms"] is not None:
                loop.call_later((t["start_ms"] + t["cancel_ms"]) / 1000.0, cancel)
        rig.advance(case["run_ms"] / 1000.0)
        end = rig.now
        exc = rig.exception_summaries()
    for st_ in tasks:
        iv = st_["spec"]["interval_ms"] / 1000.0
        if st_["t0"] is None:
            continue
        t0 = st_["t0"]
        stop = st_["cancel_t"] if st_["cancel_t"] is not None else end
        for k, t in enumerate(st_["ticks"], start=1):
            due = t0 + k * iv
            if t < due - EPS:
                vio.append(violation("tick-early", "task %d (interval %gs) tick %d at %.6f, due %.6f" % (st_["i"], iv, k, t, due)))
                break
            if t > due + J + EPS:
                vio.append(violation("tick-late-or-drift", "task %d (interval %gs from %.6f) tick %d at %.6f, due %.6f, "
                                     "max lateness %.3f" % (st_["i"], iv, t0, k, t, due, J)))
                break
            if st_["cancel_t"] is not None and t > st_["cancel_t"] + EPS:
                vio.append(violation("tick-after-cancel", "task %d ticked at %.6f after being cancelled at %.6f" % (
                    st_["i"], t, st_["cancel_t"])))
                break
        # completeness: every tick due at least J before 'stop' must have happened
        must = int((stop - J - EPS - t0) / iv + 1e-9)
        if len(st_["ticks"]) < must:
            vio.append(violation("tick-missing", "task %d (interval %gs, started %.6f) ticked %d times by %.6f, at least %d "
                                 "were due" % (st_["i"], iv, t0, len(st_["ticks"]), stop, must)))
        if len(st_["ticks"]) >= 20:
            classes.add(">=20-ticks")
        if st_["cancel_t"] is not None and st_["ticks"]:
            classes.add("cancel-while-ticking")
        if st_["spec"]["cancel_from_callback_at"] is not None and st_["cancel_t"] is not None:
            classes.add("cancel-from-own-callback")
    if exc:
        vio.append(violation("loop-exception", "exception reached the loop: %s" % exc[:2]))
    classes.add("J=%dms" % max(case["jitter"]))
    return Result(vio or None, sorted(classes), bool(classes & {">=20-ticks", "cancel-while-ticking"}))


# ------------------------------------------------------------------------------------------------
# timer device
@st.composite
def timer_case(draw):
    direction = draw(st.sampled_from(["up", "down"]))
    if direction == "up":
        start = draw(st.integers(0, 5))
        end = draw(st.one_of(st.none(), st.integers(start + 1, start + 12)))
    else:
        end = draw(st.sampled_from([None, 0, 0, 2]))
        start = draw(st.integers((end or 0) + 1, (end or 0) + 12))
    cfg = {"direction": direction, "start_value": start, "end_value": end,
           "tick_ms": draw(st.sampled_from([10, 20, 50, 100])),
           "restart_on_complete": draw(st.booleans()), "start_running": draw(st.booleans()),
           "max_value": draw(st.sampled_from([None, None, 8, 20]))}
    op = st.one_of(
        st.tuples(st.just("advance"), st.sampled_from([0, 1, 5, 9, 10, 11, 20, 45, 50, 100, 250])),
        st.tuples(st.just("advance"), st.sampled_from([0, 1, 5, 9, 10, 11, 20, 45, 50, 100, 250])),
        st.tuples(st.just("start")), st.tuples(st.just("stop")),
        st.tuples(st.just("pause"), st.sampled_from([0, 0, 0.005, 0.03, 0.1])),
        st.tuples(st.just("add"), st.integers(1, 4)), st.tuples(st.just("subtract"), st.integers(1, 4)),
        st.tuples(st.just("jump"), st.integers(0, 12)),
        st.tuples(st.just("set_tick_interval"), st.sampled_from([0.01, 0.02, 0.05])),
        st.tuples(st.just("change_tick_interval"), st.sampled_from([0.5, 2.0])),
        st.tuples(st.just("restart")), st.tuples(st.just("reset")),
    ).map(list)
    return {"cfg": cfg, "jitter": draw(jitter), "ops": draw(st.lists(op, min_size=2, max_size=25))}


class TimerModel:
    """Online reference: consumes the real events in order and validates each against what is due."""

    def __init__(self, cfg, J):
        self.c = cfg
        self.J = J
        self.ticks = cfg["start_value"]
        self.running = False
        self.iv = cfg["tick_ms"] / 1000.0
        self.base = None          # time the current tick phase started
        self.k = 0                # ticks elapsed in this phase
        self.resume_at = None     # auto resume deadline after pause(secs)
        self.expect = []          # queue of (kind, ticks) expected immediately (same instant)
        self.vio = []
        self.classes = set()
        self.completions = 0

    def v(self, sig, msg):
        if len(self.vio) < 5:
            self.vio.append(violation(sig, msg))

    def done(self):
        c = self.c
        if c["direction"] == "up":
            return c["end_value"] is not None and self.ticks >= c["end_value"]
        return self.ticks <= (c["end_value"] or 0)

    # -- expected consequences of actions (mirrors the documented behaviour)
    def _complete(self, t):
        self.completions += 1
        self.classes.add("completion")
        self._stop(t)
        self.expect.append(("complete", self.ticks))
        if self.c["restart_on_complete"]:
            self._restart(t)

    def _stop(self, t):
        self.running = False
        self.resume_at = None
        self.base = None

    def _check_done(self, t):
        if self.done():
            self._complete(t)
            return True
        return False

    def _start(self, t):
        if self.running:
            return
        if self._check_done(t):
            return
        self.running = True
        self.resume_at = None
        self.base, self.k = t, 0
        self.expect.append(("tick", self.ticks))

    def _jump(self, v, t):
        self.ticks = v
        mx = self.c["max_value"]
        if mx and self.ticks > mx:
            self.ticks = mx
        if self.running:
            self.base, self.k = t, 0
        self._check_done(t)

    def _restart(self, t):
        self._jump(self.c["start_value"], t)
        if not self.running:
            self._start(t)
        else:
            if not self._check_done(t):
                self.expect.append(("tick", self.ticks))

    def op(self, op, t):
        k = op[0]
        if k == "start":
            self._start(t)
        elif k == "stop":
            self._stop(t)
        elif k == "pause":
            if self.running:
                self.classes.add("pause-while-running")
            self.running = False
            self.base = None
            if op[1] > 0:
                self.resume_at = t + int(op[1] * 1000) / 1000.0
        elif k == "add":
            v = self.ticks + op[1]
            mx = self.c["max_value"]
            if mx and v > mx:
                v = mx
            self.ticks = v
            self._check_done(t)
        elif k == "subtract":
            self.ticks -= op[1]
            self._check_done(t)
        elif k == "jump":
            self._jump(op[1], t)
        elif k == "set_tick_interval":
            self.iv = op[1]
            if self.running:
                self.classes.add("interval-change-while-running")
                self.base, self.k = t, 0
        elif k == "change_tick_interval":
            self.iv *= op[1]
            if self.running:
                self.classes.add("interval-change-while-running")
                self.base, self.k = t, 0
        elif k == "restart":
            self._restart(t)
        elif k == "reset":
            self._jump(self.c["start_value"], t)

    # -- consuming real events
    def next_due(self):
        """(time, what) of the next spontaneous happening, or None."""
        cands = []
        if self.running and self.base is not None:
            cands.append((self.base + (self.k + 1) * self.iv, "tick"))
        if self.resume_at is not None:
            cands.append((self.resume_at, "resume"))
        return min(cands) if cands else None

    def feed(self, kind, ticks, t):
        """A real event arrived."""
        while not self.expect:
            nd = self.next_due()
            if nd is None:
                self.v("unexpected-event", "timer event %s(ticks=%r) at %.6f but the timer is %s and nothing is due" % (
                    kind, ticks, t, "running" if self.running else "not running (paused/stopped)"))
                return
            due, what = nd
            if t < due - EPS:
                self.v("event-early:" + what, "timer event %s(ticks=%r) at %.6f, next %s due at %.6f" % (kind, ticks, t, what, due))
                return
            if t > due + self.J + EPS:
                self.v("event-late-or-drift:" + what, "timer event %s(ticks=%r) at %.6f, %s was due at %.6f (max lateness %.3f)" % (
                    kind, ticks, t, what, due, self.J))
                # resynchronise so one drift is reported once
            self._spontaneous(what, t)
        ek, et = self.expect.pop(0)
        if ek != kind or et != ticks:
            self.v("wrong-event", "timer posted %s(ticks=%r) at %.6f, expected %s(ticks=%r)" % (kind, ticks, t, ek, et))
            self.expect = []

    def _spontaneous(self, what, t):
        if what == "tick":
            self.k += 1
            self.ticks += 1 if self.c["direction"] == "up" else -1
            if not self._check_done(t):
                self.expect.append(("tick", self.ticks))
        else:
            self.resume_at = None
            self.classes.add("auto-resume")
            self._start(t)

    def quiesce(self, t, where):
        """No more real events up to time t: nothing may be overdue and nothing expected may be outstanding."""
        if self.expect:
            self.v("missing-event", "expected timer events %r never arrived (%s, t=%.6f)" % (self.expect[:4], where, t))
            self.expect = []
        while True:
            nd = self.next_due()
            if nd is None or nd[0] + self.J + EPS >= t:
                return
            self.v("missing-" + nd[1], "timer %s due at %.6f did not happen by %.6f (%s)" % (nd[1], nd[0], t, where))
            self._spontaneous(nd[1], nd[0])
            self.expect = []


def check_timer(case):
    cfg = case["cfg"]
    J = max(case["jitter"]) / 1000.0
    loop_cls = make_jitter_loop([j / 1000.0 for j in case["jitter"]])
    tcfg = {"start_value": cfg["start_value"], "direction": cfg["direction"], "tick_interval": "%dms" % cfg["tick_ms"],
            "restart_on_complete": cfg["restart_on_complete"], "start_running": cfg["start_running"]}
    if cfg["end_value"] is not None:
        tcfg["end_value"] = cfg["end_value"]
    if cfg["max_value"] is not None:
        tcfg["max_value"] = cfg["max_value"]
    model = TimerModel(cfg, J)
    with Rig("timers", loop_cls=loop_cls, mode_patches={"m1": {"timers": {"t1": tcfg}}}) as rig:
        events = rig.machine.events

        def rec(kind):
            def handler(**kwargs):
                model.feed(kind, kwargs.get("ticks"), rig.now)
            return handler
        for kind in ("tick", "complete"):   # started/stopped/paused notifications are not part of the statement
            events.add_handler("timer_t1_" + kind, rec(kind))
        if cfg["start_running"]:
            # the mode start runs device_loaded_in_mode -> start()
            started = []
            events.add_handler("mode_m1_starting", lambda **kwargs: started.append(rig.now), priority=1000000)
        rig.machine.events.post("start_m1")
        t_before = rig.now
        if cfg["start_running"]:
            model._start(t_before)      # same virtual instant: mode start takes no virtual time
        rig.advance(0.0005)
        timer = rig.machine.timers["t1"]
        from mpf.core.placeholder_manager import NativeTypeTemplate
        for op in case["ops"]:
            t = rig.now
            if op[0] in ("set_tick_interval", "change_tick_interval"):
                new_iv = op[1] if op[0] == "set_tick_interval" else model.iv * op[1]
                if new_iv < 2 * J + 0.001:
                    # a tick interval below the lateness of the loop: which ticks have happened by a given instant is no
                    # longer determined (excluded, counted)
                    model.classes.add("tick interval below the loop's lateness (skipped)")
                    continue
            if op[0] == "advance":
                rig.advance(op[1] / 1000.0)
                model.quiesce(rig.now, "after advance")
            else:
                model.op(op, t)
                if op[0] in ("start", "stop", "restart", "reset"):
                    getattr(timer, op[0])()
                elif op[0] == "pause":
                    timer.pause(NativeTypeTemplate(op[1], rig.machine) if op[1] else 0)
                elif op[0] in ("add", "subtract", "jump"):
                    getattr(timer, op[0])(op[1])
                elif op[0] == "set_tick_interval":
                    timer.set_tick_interval(op[1])
                elif op[0] == "change_tick_interval":
                    timer.change_tick_interval(NativeTypeTemplate(op[1], rig.machine))
                rig.run_ready()
                model.quiesce(rig.now, "after %s" % op[0])
            if timer.ticks != model.ticks and not model.vio:
                model.v("count-mismatch", "timer.ticks is %r after %r at %.6f, the reference count is %r" % (
                    timer.ticks, op, rig.now, model.ticks))
            if bool(timer.running) != model.running and not model.vio:
                model.v("running-mismatch", "timer.running is %r after %r at %.6f, reference says %r" % (
                    timer.running, op, rig.now, model.running))
            if model.vio:
                break
        if not model.vio:
            rig.advance(0.3)
            model.quiesce(rig.now, "at end")
        exc = rig.exception_summaries()
    vio = model.vio
    if exc:
        vio.append(violation("loop-exception", "exception reached the loop: %s" % exc[:2]))
    classes = sorted(model.classes) + ["dir-" + cfg["direction"], "J=%dms" % max(case["jitter"])]
    nontrivial = bool(model.classes & {"pause-while-running", "auto-resume", "interval-change-while-running", "completion"})
    return Result(vio or None, classes, nontrivial)


SUBCHECKS = [
    SubCheck("delays", lambda: case_delays, check_delays, quick=1500, thorough=50000, procs_quick=5),
    SubCheck("periodic", lambda: case_periodic, check_periodic, quick=400, thorough=10000, procs_quick=3),
    SubCheck("timer", timer_case, check_timer, quick=1200, thorough=40000, procs_quick=5),
]
