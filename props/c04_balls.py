"""C04 — Ball counts agree with the physical machine and are conserved."""
from vlib.engine import Result, SubCheck
from props import ballworld

PROPERTY = "C04"
LEVEL = "exploration"
RULE = ("A case is a generated machine (1-5 balls; switch- or entrance-counted trough with or without an outhole; "
        "coil or mechanical launcher with 1-2 switches; optional switch- or entrance-counted playfield lock; "
        "max_eject_attempts; device order), per-device lists of physical eject outcomes (leaves and arrives, arrives "
        "late, falls back, too weak) and a timed history of requests (add_ball, request_ball, eject, eject_all, "
        "collect) and physics (drains, lock shots, playfield switch hits, plunges, balls bouncing out of an idle "
        "device, a ball knocking on the entrance of a full device); sub-check 'game' adds the game mode, a generated "
        "ball save and multiball and uses only player/physics operations. Non-trivial = at least one eject anomaly, "
        "overlapping movement, lock entry, bounce or >= 3 coil pulses reacted to by the world. Distinct = case hash.")
ASSUMPTIONS = [
    "balls are never created or destroyed; switches are clean (no bounce below the count delays)",
    "entrance-counted devices only see successful ejects (they cannot observe a failed one)",
    "two balls pass the same entrance switch at least 400 ms apart",
    "a ball that entered a device rests there at least 0.6 s before the player plunges it or it bounces out (counts settle "
    "in 0.5 s: a ball passing through faster is invisible to MPF)",
    "a loose ball knocks on the entrance switch of a full entrance-counted device only while that device is at rest (not in "
    "the 30 ms between its coil pulse and its ball leaving)",
    "late arrivals stay below ball_missing_timeout",
    "balls bounce out of a device only while the whole machine is at rest",
    "'at rest' = no ball in transit, no pending world event and 75 s of virtual quiet without a coil pulse",
    "no other ball hits a playfield switch while a failed eject to the playfield awaits MPF's verdict (MPF cannot "
    "tell which ball hit the switch); such hits are held back and counted",
    "a late ball towards a mechanical plunger arrives within the plunger's own eject timeout + 2.5 s",
    "counts of a device which reported itself broken are not compared with the world; the history ends there",
    "sub-check 'calm': a ball does not get into a device while that device's own eject is unconfirmed, launcher "
    "has one switch",
    "sub-check 'game': no harness-made lock claims; multiball locks, ball holds, tilt are not configured",
]


def check(case):
    out = ballworld.run(case, focus="c04")
    classes = sorted(out["classes"])
    return Result(violation=out["c04"] or None, classes=classes, nontrivial=out["nontrivial"])


SUBCHECKS = [SubCheck("world", ballworld.case_strategy, check, quick=1600, thorough=30000, procs_quick=8),
             SubCheck("calm", ballworld.calm_strategy, check, quick=1600, thorough=30000, procs_quick=8),
             SubCheck("game", ballworld.game_strategy, check, quick=3000, thorough=40000, procs_quick=8)]
