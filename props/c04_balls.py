"""C04 — Ball counts agree with the physical machine and are conserved."""
from vlib.engine import Result, SubCheck
from props import ballworld

PROPERTY = "C04"
LEVEL = "exploration"
RULE = ("A case is a generated machine (1-5 balls; switch- or entrance-counted trough with or without an outhole; "
        "coil or mechanical launcher with 1-2 switches; optional switch- or entrance-counted playfield lock; "
        "max_eject_attempts; device order), per-device lists of physical eject outcomes (leaves and arrives, arrives "
        "late, falls back, too weak) and a timed history of requests (add_ball, request_ball, eject, eject_all, "
        "collect) and physics (drains, lock shots, playfield switch hits, plunges, balls bouncing out of an idle "
        "device, a ball knocking on the entrance of a full device). Non-trivial = at least one eject anomaly, "
        "overlapping movement, lock entry, bounce or >= 3 coil pulses reacted to by the world. Distinct = case hash.")
ASSUMPTIONS = [
    "balls are never created or destroyed; switches are clean (no bounce below the count delays)",
    "entrance-counted devices only see successful ejects (they cannot observe a failed one)",
    "two balls pass the same entrance switch at least 400 ms apart",
    "late arrivals stay below ball_missing_timeout",
    "balls bounce out of a device only while the whole machine is at rest",
    "'at rest' = no ball in transit, no pending world event and 75 s of virtual quiet without a coil pulse",
]


def check(case):
    out = ballworld.run(case, focus="c04")
    classes = sorted(out["classes"])
    return Result(violation=out["c04"] or None, classes=classes, nontrivial=out["nontrivial"])


SUBCHECKS = [SubCheck("world", ballworld.case_strategy, check, quick=1600, thorough=30000, procs_quick=8),
             SubCheck("calm", ballworld.calm_strategy, check, quick=1600, thorough=30000, procs_quick=8),
             SubCheck("game", ballworld.game_strategy, check, quick=1600, thorough=30000, procs_quick=8)]
