"""C05 — Ball requests make progress: no lost or stuck ejects."""
from vlib.engine import Result, SubCheck
from props import ballworld

PROPERTY = "C05"
LEVEL = "exploration"
RULE = ("Same generated machines, eject outcomes and histories as C04 (see props/ballworld.py). The oracle is bounded "
        "liveness at rest: every device is idle or has reported itself broken after max_eject_attempts, no queued "
        "request has a ball physically available upstream, requested balls were physically delivered or are still "
        "queued, every too-weak / fall-back eject was followed by another pulse or an eject_failed event, no task "
        "crashed; under a game a ball counted as in play is physically in play unless trough and outhole are empty. "
        "Non-trivial = at least one eject anomaly, a request queued while no ball was available, overlapping "
        "ejects or >= 3 coil pulses. Distinct = case hash.")
ASSUMPTIONS = [
    "same physical envelope as C04",
    "'eventually' is decided as: the world and MPF come to rest within 60 rounds of 75 s virtual quiet",
    "a mechanical plunger is eventually plunged by the player when MPF waits for it",
    "after a device reported itself broken the history ends (requests through it cannot be served)",
    "at most capacity-many request_ball calls per device (asking for more than fits is a caller error)",
]


def check(case):
    out = ballworld.run(case, focus="c05")
    classes = sorted(out["classes"])
    return Result(violation=out["c05"] or None, classes=classes, nontrivial=out["nontrivial"])


SUBCHECKS = [SubCheck("world", ballworld.case_strategy, check, quick=1600, thorough=30000, procs_quick=8),
             SubCheck("calm", ballworld.calm_strategy, check, quick=1600, thorough=30000, procs_quick=8),
             SubCheck("game", ballworld.game_strategy, check, quick=3000, thorough=40000, procs_quick=8)]
