"""C08 — Coils are never driven beyond their configured safety limits."""
import functools

from hypothesis import strategies as st

from vlib.engine import Result, SubCheck, violation
from vlib.rig import Rig

PROPERTY = "C08"
LEVEL = "exploration"
RULE = ("A case is a generated coil configuration (max_pulse_ms, max/default pulse power, max/default hold power, "
        "allow_enable, max_hold_duration, pulse_with_timed_enable, default pulse/timed-enable ms) and a history of "
        "pulse/enable/timed_enable/disable calls, their four control events with generated kwargs, coil_player "
        "entries and time gaps around pending software timers. Durations come from {-5,-1,0,1,limit-1,limit,limit+1,"
        "255,256,2000}, powers from {-0.5,-1e-9,0,limit-d,limit,limit+d,1,1.5}. Non-trivial = a parameter within one "
        "step of a limit or negative, or another request while a software-timed pulse or a hold is pending. Distinct "
        "= distinct case hash.")
ASSUMPTIONS = [
    "coil configurations the validator or the driver rejects at boot are skipped and counted",
    "max_pulse_power: 0 is not generated (the code treats 0 as 'not set')",
    "NaN powers are outside the domain",
    "the platform's hardware pulse limit is the virtual platform's 255 ms; longer pulses are timed in software",
    "decided at the platform driver interface of the virtual platform",
]
PLATFORM_MAX_PULSE = 255
EPS = 1e-6


def dur(limit):
    base = [-5, -1, 0, 1, 10, 255, 256, 2000]
    if limit:
        base += [limit - 1, limit, limit + 1]
    return st.sampled_from(base)


def power(limit):
    base = [-0.5, -1e-9, 0.0, 1.0, 1.5, 0.5]
    if limit:
        base += [limit - 0.01, limit, limit + 0.01]
    return st.sampled_from(base)


@st.composite
def case_strategy(draw):
    max_pulse_ms = draw(st.sampled_from([None, None, 20, 100, 300, 500]))
    mpp = draw(st.sampled_from([None, None, 1.0, 0.5, 0.75]))
    mhp = draw(st.sampled_from([None, None, 0.25, 0.5, 1.0]))
    allow_enable = draw(st.booleans())
    H = draw(st.sampled_from([None, None, None, 0.1, 0.5]))
    sloppy = draw(st.integers(0, 9)) == 0      # one config in ten ignores the limits (mostly rejected at boot)
    dpp = draw(st.sampled_from([None, None, 0.25, 0.5, 1.0]))
    if mpp is not None and (dpp is None or dpp > mpp) and not sloppy:
        dpp = mpp       # without a default the driver assumes 1.0, which a lower maximum rejects at boot
    dhp = draw(st.sampled_from([None, None, 0.0, 0.125, 0.25, 1.0]))
    if dhp is not None and mhp is not None and dhp > mhp and not sloppy:
        dhp = mhp
    dpm = draw(st.sampled_from([None, None, 10, 30, 300, "var"]))
    if dpm != "var" and max_pulse_ms is not None and (dpm or 10) > max_pulse_ms and not sloppy:
        dpm = max_pulse_ms
    dte = draw(st.sampled_from([None, 50, 400]))
    if H is not None and not sloppy:
        dte = None      # the driver compares this default (ms) with max_hold_duration (s) and rejects it
    cfg = {"max_pulse_ms": max_pulse_ms, "max_pulse_power": mpp, "default_pulse_power": dpp, "max_hold_power": mhp,
           "default_hold_power": dhp, "allow_enable": allow_enable, "max_hold_duration": H,
           "pulse_with_timed_enable": draw(st.sampled_from([False, False, False, True])),
           "default_pulse_ms": dpm, "default_timed_enable_ms": dte}
    d = st.one_of(st.none(), dur(max_pulse_ms), st.just(2.5))
    pp = st.one_of(st.none(), power(mpp or dpp))
    hp = st.one_of(st.none(), power(mhp or dhp))
    te = st.one_of(st.none(), st.sampled_from([-5, 0, 1, 50, 99, 100, 101, 499, 500, 501, 2000]))
    op = st.one_of(
        st.tuples(st.just("pulse"), d, pp), st.tuples(st.just("pulse"), d, pp),
        st.tuples(st.just("enable"), d, pp, hp), st.tuples(st.just("enable"), d, pp, hp),
        st.tuples(st.just("timed_enable"), te, hp, d, pp),
        st.tuples(st.just("disable")),
        st.tuples(st.just("ev_pulse"), d, pp), st.tuples(st.just("ev_enable"), d, pp, hp),
        st.tuples(st.just("ev_timed_enable"), te, hp, d, pp), st.tuples(st.just("ev_disable")),
        st.tuples(st.just("player"), st.sampled_from(["pulse", "enable", "disable"]), d, pp, hp),
        st.tuples(st.just("advance"), st.sampled_from([0, 1, 50, 99, 100, 101, 299, 300, 301, 499, 500, 501, 2500])),
        st.tuples(st.just("advance"), st.sampled_from([0, 1, 50, 99, 100, 101, 299, 300, 301, 499, 500, 501, 2500])),
        st.tuples(st.just("setvar"), dur(max_pulse_ms).filter(lambda x: x >= 0)),
        # the shared power supply is busy (another coil pulsed) and an enable may be postponed by up to max_wait_ms
        st.tuples(st.just("other_pulse"), st.sampled_from([20, 60, 200])),
        st.tuples(st.just("enable_wait"), d, pp, hp, st.sampled_from([0, 30, 100, 500])),
    ).map(list)
    return {"cfg": cfg, "ops": draw(st.lists(op, min_size=2, max_size=30))}


def coil_config(cfg):
    c = {"number": "1", "allow_enable": cfg["allow_enable"], "pulse_with_timed_enable": cfg["pulse_with_timed_enable"],
         "pulse_events": "ev_c_pulse", "enable_events": "ev_c_enable", "disable_events": "ev_c_disable",
         "timed_enable_events": "ev_c_timed_enable"}
    for k in ("max_pulse_power", "default_pulse_power", "max_hold_power", "default_hold_power"):
        if cfg[k] is not None:
            c[k] = cfg[k]
    if cfg["max_pulse_ms"] is not None:
        c["max_pulse_ms"] = "%dms" % cfg["max_pulse_ms"]
    if cfg["max_hold_duration"] is not None:
        c["max_hold_duration"] = "%ss" % cfg["max_hold_duration"]
    if cfg["default_pulse_ms"] == "var":
        c["default_pulse_ms"] = "machine.c08_pulse_ms"      # a template default that can change at run time
    elif cfg["default_pulse_ms"] is not None:
        c["default_pulse_ms"] = cfg["default_pulse_ms"]
    if cfg["default_timed_enable_ms"] is not None:
        c["default_timed_enable_ms"] = cfg["default_timed_enable_ms"]
    return c


class Limits:
    def __init__(self, cfg, mpf_default_pulse_ms, mpf_default_te_ms):
        self.cfg = cfg
        self.max_pulse_ms = cfg["max_pulse_ms"]
        self.eff_max_pp = cfg["max_pulse_power"] or 1.0      # spec default of max_pulse_power is 1.0
        if cfg["allow_enable"] and not cfg["max_hold_power"]:
            self.eff_max_hp = 1.0
        else:
            self.eff_max_hp = cfg["max_hold_power"] or (cfg["default_hold_power"] or 0.0)
        self.hold_allowed = bool(cfg["allow_enable"] or cfg["max_hold_power"] or cfg["default_hold_power"])
        if cfg["default_pulse_ms"] == "var":
            self.default_pulse_ms = 0       # the machine variable does not exist yet: the int template's default
        else:
            self.default_pulse_ms = cfg["default_pulse_ms"] if cfg["default_pulse_ms"] is not None else mpf_default_pulse_ms
        self.default_te = cfg["default_timed_enable_ms"] if cfg["default_timed_enable_ms"] is not None else mpf_default_te_ms
        self.H = cfg["max_hold_duration"]

    def must_refuse(self, kind, d, pp, hp=None, te=None):
        """True if the statement demands a refusal: a negative or over-limit parameter (explicit or default)."""
        why = []
        de = self.default_pulse_ms if d is None else d
        if isinstance(de, (int, float)) and de < 0:
            why.append("negative pulse_ms")
        if self.max_pulse_ms and isinstance(de, (int, float)) and de > self.max_pulse_ms:
            why.append("pulse_ms above max_pulse_ms")
        ppe = (self.cfg["default_pulse_power"] if self.cfg["default_pulse_power"] is not None else 1.0) if pp is None else pp
        if ppe < 0:
            why.append("negative pulse_power")
        if ppe > self.eff_max_pp + 1e-12:
            why.append("pulse_power above max_pulse_power")
        if kind in ("enable", "timed_enable"):
            if hp is not None:
                if hp < 0:
                    why.append("negative hold_power")
                if hp > self.eff_max_hp + 1e-12:
                    why.append("hold_power above max_hold_power")
        if kind == "timed_enable":
            tee = self.default_te if te is None else te
            if tee < 0:
                why.append("negative timed_enable_ms")
        return why


def check(case):
    cfg = case["cfg"]
    patches = {"coils": {"c": coil_config(cfg), "c2": {"number": "2"}},
               "coil_player": {}}
    # coil_player entries are generated per op below (one event per op index)
    for i, op in enumerate(case["ops"]):
        if op[0] == "player":
            ent = {"action": op[1]}
            if op[2] is not None and isinstance(op[2], int):
                ent["pulse_ms"] = op[2]
            if op[3] is not None:
                ent["pulse_power"] = op[3]
            if op[4] is not None and op[1] == "enable":
                ent["hold_power"] = op[4]
            patches["coil_player"]["cp_ev_%d" % i] = {"c": ent}
    rig = Rig("null", patches=patches)
    try:
        rig.start()
    except BaseException as e:   # pylint: disable=broad-except
        return Result(None, ["config-rejected:" + type(e).__name__], False, excluded="coil config rejected at boot")
    vio = []
    classes = set()
    try:
        m = rig.machine
        coil = m.coils["c"]
        lim = Limits(cfg, m.config["mpf"]["default_pulse_ms"], m.config["mpf"]["default_timed_enable_ms"])
        rec = []
        cur = {"op": None, "i": -1}
        hw = coil.hw_driver

        def wrap(name):
            orig = getattr(hw, name)

            def f(*a, **kw):
                rec.append({"t": rig.now, "call": name, "args": a, "op": cur["op"], "i": cur["i"]})
                return orig(*a, **kw)
            setattr(hw, name, f)
        for n in ("pulse", "enable", "disable", "timed_enable"):
            wrap(n)
        state = {"on": None}     # None | dict(kind=sw|hold, since, deadline)

        def v(sig, msg):
            if len(vio) < 5:
                vio.append(violation(sig, msg))

        def scan(new_records):
            for r in new_records:
                c, a = r["call"], r["args"]
                if c == "pulse":
                    ps = a[0]
                    if not (0 < ps.duration <= PLATFORM_MAX_PULSE):
                        v("hw-pulse-duration", "hardware pulse of %r ms reached the driver (op %r)" % (ps.duration, r["op"]))
                    if lim.max_pulse_ms and ps.duration > lim.max_pulse_ms:
                        v("pulse-above-max_pulse_ms", "pulse of %r ms reached the driver, max_pulse_ms is %r (op %r)" % (
                            ps.duration, lim.max_pulse_ms, r["op"]))
                    if not (0 <= ps.power <= lim.eff_max_pp + 1e-12):
                        v("pulse-power-out-of-range", "pulse power %r reached the driver, allowed [0, %r] (op %r)" % (
                            ps.power, lim.eff_max_pp, r["op"]))
                    state["on"] = None
                elif c == "enable":
                    ps, hs = a[0], a[1]
                    is_sw_pulse = r["op"] is not None and r["op"][0] in ("pulse", "ev_pulse") or (
                        r["op"] is not None and r["op"][0] == "player" and r["op"][1] == "pulse")
                    if is_sw_pulse:
                        d = r["op"][2] if r["op"][0] == "player" else r["op"][1]
                        if r["op"][0] == "player" and not isinstance(d, int):
                            d = None        # only int durations are written into the coil_player entry
                        if d is None:
                            d = lim.default_pulse_ms
                        if not (0 <= ps.power <= lim.eff_max_pp + 1e-12) or not (0 <= hs.power <= lim.eff_max_pp + 1e-12):
                            v("pulse-power-out-of-range", "software-timed pulse with power %r/%r reached the driver, allowed "
                              "[0, %r] (op %r)" % (ps.power, hs.power, lim.eff_max_pp, r["op"]))
                        if lim.max_pulse_ms and d > lim.max_pulse_ms:
                            v("pulse-above-max_pulse_ms", "software-timed pulse of %r ms, max_pulse_ms is %r" % (d, lim.max_pulse_ms))
                        if d < 0:
                            v("negative-duration-reached-driver", "software-timed pulse of %r ms reached the driver" % d)
                        if state["on"] is None or state["on"]["kind"] == "sw":
                            state["on"] = {"kind": "sw", "since": r["t"], "deadline": r["t"] + max(d, 0) / 1000.0}
                        classes.add("software-timed-pulse")
                    else:
                        if lim.max_pulse_ms and ps.duration > lim.max_pulse_ms:
                            v("pulse-above-max_pulse_ms", "enable with initial pulse of %r ms, max_pulse_ms is %r" % (
                                ps.duration, lim.max_pulse_ms))
                        if ps.duration < 0:
                            v("negative-duration-reached-driver", "enable with pulse of %r ms reached the driver" % ps.duration)
                        if not (0 <= ps.power <= lim.eff_max_pp + 1e-12):
                            v("pulse-power-out-of-range", "enable with pulse power %r, allowed [0, %r]" % (ps.power, lim.eff_max_pp))
                        if not (0 <= hs.power <= lim.eff_max_hp + 1e-12):
                            v("hold-power-out-of-range", "enable with hold power %r reached the driver, allowed [0, %r] (op %r)" % (
                                hs.power, lim.eff_max_hp, r["op"]))
                        if hs.power > 0 and not lim.hold_allowed:
                            v("hold-not-allowed", "coil was enabled (hold power %r) although its config does not allow "
                              "holding (op %r)" % (hs.power, r["op"]))
                        since = state["on"]["since"] if state["on"] and state["on"]["kind"] == "hold" else r["t"]
                        state["on"] = {"kind": "hold", "since": since, "deadline": (since + lim.H) if lim.H else None}
                        classes.add("hold")
                elif c == "timed_enable":
                    ps, hs = a[0], a[1]
                    if lim.max_pulse_ms and ps.duration > lim.max_pulse_ms:
                        v("pulse-above-max_pulse_ms", "timed_enable with pulse of %r ms, max_pulse_ms is %r" % (ps.duration, lim.max_pulse_ms))
                    if ps.duration < 0 or (hs.duration is not None and hs.duration < 0):
                        v("negative-duration-reached-driver", "timed_enable with durations %r/%r reached the driver" % (
                            ps.duration, hs.duration))
                    if not (0 <= ps.power <= lim.eff_max_pp + 1e-12):
                        v("pulse-power-out-of-range", "timed_enable with pulse power %r, allowed [0, %r]" % (ps.power, lim.eff_max_pp))
                    pulse_via_te = r["op"] is not None and r["op"][0] in ("pulse", "ev_pulse", "player") and cfg["pulse_with_timed_enable"]
                    if not pulse_via_te and not (0 <= hs.power <= lim.eff_max_hp + 1e-12):
                        v("hold-power-out-of-range", "timed_enable with hold power %r, allowed [0, %r] (op %r)" % (
                            hs.power, lim.eff_max_hp, r["op"]))
                    state["on"] = None      # timed by the hardware
                elif c == "disable":
                    s_on = state["on"]
                    if s_on and s_on["deadline"] is not None and r["t"] > s_on["deadline"] + EPS:
                        v("switched-off-late", "coil on since %.4f (%s) was due off at %.4f but was switched off at %.4f" % (
                            s_on["since"], s_on["kind"], s_on["deadline"], r["t"]))
                    state["on"] = None

        def check_left_on(where):
            s = state["on"]
            if s and s["deadline"] is not None and rig.now > s["deadline"] + EPS:
                if s["kind"] == "sw":
                    v("software-pulse-not-switched-off", "coil switched on at %.4f for a software-timed pulse due off at "
                      "%.4f is still on at %.4f (%s)" % (s["since"], s["deadline"], rig.now, where))
                else:
                    v("held-beyond-max_hold_duration", "coil enabled at %.4f with max_hold_duration %ss is still on at "
                      "%.4f (%s)" % (s["since"], lim.H, rig.now, where))
                state["on"] = None

        for i, op in enumerate(case["ops"]):
            if vio:
                break
            cur["op"], cur["i"] = op, i
            n0 = len(rec)
            e0 = len(rig.exceptions)
            raised = None
            k = op[0]
            pending = state["on"] is not None
            try:
                if k == "pulse":
                    why = lim.must_refuse("pulse", op[1], op[2])
                    coil.pulse(pulse_ms=op[1], pulse_power=op[2])
                elif k == "enable":
                    why = lim.must_refuse("enable", op[1], op[2], op[3])
                    coil.enable(pulse_ms=op[1], pulse_power=op[2], hold_power=op[3])
                elif k == "other_pulse":
                    why = []
                    m.coils["c2"].pulse(op[1])
                elif k == "enable_wait":
                    why = lim.must_refuse("enable", op[1], op[2], op[3])
                    busy = m.coils["c"].config["psu"]._busy_until       # pylint: disable=protected-access
                    if not why and op[4] and busy and rig.now < busy <= rig.now + op[4] / 1000.0:
                        classes.add("enable postponed by the busy power supply")
                    coil.enable(pulse_ms=op[1], pulse_power=op[2], hold_power=op[3], max_wait_ms=op[4])
                elif k == "timed_enable":
                    why = lim.must_refuse("timed_enable", op[3], op[4], op[2], op[1])
                    coil.timed_enable(timed_enable_ms=op[1], hold_power=op[2], pulse_ms=op[3], pulse_power=op[4])
                elif k == "disable":
                    why = []
                    coil.disable()
                elif k == "ev_pulse":
                    why = lim.must_refuse("pulse", op[1], op[2])
                    m.events.post("ev_c_pulse", **_kw(pulse_ms=op[1], pulse_power=op[2]))
                elif k == "ev_enable":
                    why = lim.must_refuse("enable", op[1], op[2], op[3])
                    m.events.post("ev_c_enable", **_kw(pulse_ms=op[1], pulse_power=op[2], hold_power=op[3]))
                elif k == "ev_timed_enable":
                    why = lim.must_refuse("timed_enable", op[3], op[4], op[2], op[1])
                    m.events.post("ev_c_timed_enable", **_kw(timed_enable_ms=op[1], hold_power=op[2], pulse_ms=op[3], pulse_power=op[4]))
                elif k == "ev_disable":
                    why = []
                    m.events.post("ev_c_disable")
                elif k == "player":
                    d = op[2] if isinstance(op[2], int) else None
                    if op[1] == "pulse":
                        why = lim.must_refuse("pulse", d, op[3])
                    elif op[1] == "enable":
                        why = lim.must_refuse("enable", d, op[3], op[4])
                    else:
                        why = []
                    m.events.post("cp_ev_%d" % i)
                elif k == "setvar":
                    why = []
                    if cfg["default_pulse_ms"] == "var":
                        m.variables.set_machine_var("c08_pulse_ms", op[1])
                        rig.advance(0.001)      # the template's subscription re-evaluates on the next loop iterations
                        lim.default_pulse_ms = op[1]
                        classes.add("template-default-changed")
                elif k == "advance":
                    why = []
                    rig.advance(op[1] / 1000.0)
                rig.run_ready()
            except Exception as e:   # pylint: disable=broad-except
                raised = e
                try:
                    rig.run_ready()
                except Exception:   # pylint: disable=broad-except
                    pass
            new = rec[n0:]
            own = [r for r in new if r["call"] != "disable" and r["i"] == i]
            errors = raised is not None or len(rig.exceptions) > e0
            if k not in ("advance", "setvar", "disable", "ev_disable", "other_pulse"):
                if any(isinstance(x, (int, float)) and x is not None and (x < 0) for x in op[1:] if not isinstance(x, str)) or why:
                    classes.add("negative-or-over-limit-request")
                if pending:
                    classes.add("request-while-timer-or-hold-pending")
            if why and k not in ("advance", "setvar", "other_pulse"):
                if own:
                    v("not-refused:" + why[0].replace(" ", "_"), "request %r must be refused (%s) but reached the driver: %r" % (
                        op, ", ".join(why), [(r["call"], r["args"]) for r in own]))
                elif not errors:
                    v("silently-ignored:" + why[0].replace(" ", "_"), "request %r must be refused with an error (%s); nothing "
                      "reached the driver but no error was raised either" % (op, ", ".join(why)))
            # drop the errors we expect (a refused request raises inside an event handler)
            del rig.exceptions[e0:]
            scan(new)
            check_left_on("after %r" % (op,))
        if not vio:
            n0 = len(rec)
            cur["op"], cur["i"] = None, -1
            rig.advance(3.0)
            scan(rec[n0:])
            check_left_on("at end")
    finally:
        rig.stop()
    nontrivial = bool(classes & {"negative-or-over-limit-request", "request-while-timer-or-hold-pending"})
    return Result(vio or None, sorted(classes) or ["plain"], nontrivial)


def _kw(**kw):
    return {k: v for k, v in kw.items() if v is not None}


# ---- integration: flippers, autofire coils, kickback, ball search and software flips ---------------------------------
I_COILS = ["c_main1", "c_hold1", "c_main2", "c_main3", "c_hold3", "c_main4", "c_af1", "c_af2", "c_af3", "c_kb"]
I_HOLD_ROLE = {"c_hold1", "c_main2", "c_hold3", "c_main4"}      # coils a flipper holds: they need permission to hold
I_DEVS = {"flippers": ["f1", "f2", "f3", "f4"], "autofire_coils": ["af1", "af2", "af3"], "kickbacks": ["kb1"]}

@st.composite
def i_coil_cfg(draw):
    # constructive: defaults inside the coil's own limits (a default above its limit is rejected at boot)
    sloppy = draw(st.integers(0, 199)) == 0          # ten coils per machine: keep boot rejections rare
    mpm = draw(st.sampled_from([None, None, 15, 30, 100]))
    dpm = draw(st.sampled_from([None, 10, 20, 40, 120]))
    if mpm and not sloppy and (dpm is None or dpm > mpm):
        dpm = draw(st.sampled_from([mpm, mpm - 5]))
    mpp = draw(st.sampled_from([None, None, 0.5]))
    dpp = draw(st.sampled_from([None, None, 0.25, 0.75]))
    if mpp and not sloppy and (dpp is None or dpp > mpp):
        dpp = draw(st.sampled_from([mpp, 0.25]))
    mhp = draw(st.sampled_from([None, None, 0.5]))
    dhp = draw(st.sampled_from([None, 0.25, 0.75]))
    if mhp and dhp and dhp > mhp and not sloppy:
        dhp = 0.25
    return {"max_pulse_ms": mpm, "default_pulse_ms": dpm, "max_pulse_power": mpp, "default_pulse_power": dpp,
            "max_hold_power": mhp, "default_hold_power": dhp, "allow_enable": draw(st.booleans())}


i_overwrite = st.one_of(st.none(), st.tuples(st.sampled_from([None, 10, 50, 200]), st.sampled_from([None, 0.3, 0.9]),
                                             st.sampled_from([None, 0.3, 0.9])).map(
    lambda t: {k: v for k, v in zip(("pulse_ms", "pulse_power", "hold_power"), t) if v is not None}))
i_op = st.one_of(
    st.tuples(st.just("enable"), st.sampled_from(sum(I_DEVS.values(), []))).map(list),
    st.tuples(st.just("enable"), st.sampled_from(sum(I_DEVS.values(), []))).map(list),
    st.tuples(st.just("disable"), st.sampled_from(sum(I_DEVS.values(), []))).map(list),
    st.tuples(st.just("flip"), st.sampled_from(I_DEVS["flippers"])).map(list),
    st.tuples(st.just("flip"), st.sampled_from(I_DEVS["flippers"])).map(list),
    st.tuples(st.just("release"), st.sampled_from(I_DEVS["flippers"])).map(list),
    st.tuples(st.just("button"), st.sampled_from(["s_flip1", "s_flip2", "s_eos2", "s_flip3", "s_eos3", "s_flip4", "s_af1",
                                                   "s_af2", "s_kb"]), st.integers(0, 1)).map(list),
    st.tuples(st.just("ball_search"), st.sampled_from([150, 450, 1200])).map(list),
    st.tuples(st.just("advance"), st.sampled_from([0, 10, 100, 600])).map(list),
)
case_integration = st.tuples(
    st.lists(i_coil_cfg(), min_size=len(I_COILS), max_size=len(I_COILS)),
    st.lists(i_overwrite, min_size=12, max_size=12),
    st.sampled_from([0, 0, 5, 40]),
    st.lists(i_op, min_size=3, max_size=25),
).map(lambda t: {"coils": dict(zip(I_COILS, t[0])), "overwrites": t[1], "af_delay": t[2], "ops": t[3]})


def _i_limits(cfg):
    full = {"max_hold_duration": None, "default_timed_enable_ms": None}
    full.update(cfg)
    return Limits(full, 10, 10)


def check_integration(case):
    """Every pulse/hold setting that reaches the platform from flippers, autofire coils, the kickback, software flips
    and ball search - as a hardware rule or as a driver call - is inside the limits of the coil it addresses."""
    patches = {"coils": {}, "flippers": {}, "autofire_coils": {}, "kickbacks": {}}
    for n, c in case["coils"].items():
        ent = {k: v for k, v in c.items() if v is not None and k != "allow_enable"}
        ent["allow_enable"] = bool(c["allow_enable"] or (n in I_HOLD_ROLE and not c["max_hold_power"] and
                                                          not c["default_hold_power"]))
        patches["coils"][n] = ent
    ow = list(case["overwrites"])
    slots = [("flippers", f, k) for f in I_DEVS["flippers"] for k in ("main_coil_overwrite", "hold_coil_overwrite")] + \
            [("autofire_coils", a, "coil_overwrite") for a in I_DEVS["autofire_coils"]] + [("kickbacks", "kb1", "coil_overwrite")]
    for (sec, dev, key), o in zip(slots, ow):
        if o and not (key == "hold_coil_overwrite" and dev in ("f2", "f4")):
            patches[sec].setdefault(dev, {})[key] = o
    for sec, devs in I_DEVS.items():
        for d in devs:
            patches[sec].setdefault(d, {}).update({"enable_events": "en_" + d, "disable_events": "dis_" + d})
    if case["af_delay"]:
        patches["autofire_coils"].setdefault("af1", {})["coil_pulse_delay"] = case["af_delay"]
    rig = Rig("rules10", base="fakegame", patches=patches)
    try:
        rig.start()
    except BaseException as e:   # pylint: disable=broad-except
        return Result(None, ["config-rejected:" + type(e).__name__], False, excluded="configuration rejected at boot")
    vio = []
    classes = set()
    try:
        m = rig.machine
        by_hw = {m.coils[n].hw_driver: n for n in I_COILS}
        lims = {n: _i_limits(dict(case["coils"][n], allow_enable=patches["coils"][n]["allow_enable"])) for n in I_COILS}
        seen = {"rules": 0, "calls": 0}

        def v(sig, msg):
            if len(vio) < 5:
                vio.append(violation(sig, msg))

        def judge(coil, pulse, hold, where):
            lim = lims[coil]
            if pulse is not None:
                if lim.max_pulse_ms and pulse.duration > lim.max_pulse_ms:
                    v("integration:pulse_ms-above-max", "%s: pulse of %r ms for %s reached the platform, max_pulse_ms is %r" %
                      (where, pulse.duration, coil, lim.max_pulse_ms))
                if pulse.duration < 0 or pulse.power < 0:
                    v("integration:negative", "%s: negative pulse setting %r for %s" % (where, pulse, coil))
                if pulse.power > lim.eff_max_pp + EPS:
                    v("integration:pulse_power-above-max", "%s: pulse power %r for %s reached the platform, limit %r" %
                      (where, pulse.power, coil, lim.eff_max_pp))
                if pulse.duration >= 0.8 * (lim.max_pulse_ms or 10 ** 9) or pulse.power >= lim.eff_max_pp - 0.3:
                    classes.add("setting close to a limit reached the platform")
            if hold is not None and hold.power:
                if not lim.hold_allowed:
                    v("integration:hold-not-allowed", "%s: %s is held (power %r) although its configuration does not "
                      "allow holding" % (where, coil, hold.power))
                elif hold.power > lim.eff_max_hp + EPS:
                    v("integration:hold_power-above-max", "%s: hold power %r for %s reached the platform, limit %r" %
                      (where, hold.power, coil, lim.eff_max_hp))
        plat = m.default_platform
        for name in ("set_pulse_on_hit_rule", "set_delayed_pulse_on_hit_rule", "set_pulse_on_hit_and_release_rule",
                     "set_pulse_on_hit_and_enable_and_release_rule", "set_pulse_on_hit_and_release_and_disable_rule",
                     "set_pulse_on_hit_and_enable_and_release_and_disable_rule"):
            orig = getattr(plat, name, None)
            if orig is None:
                continue

            def wrapped(*a, _orig=orig, _name=name, **kw):
                ds = [x for x in list(a) + list(kw.values()) if hasattr(x, "hw_driver") and hasattr(x, "pulse_settings")]
                for d in ds:
                    seen["rules"] += 1
                    judge(by_hw[d.hw_driver], d.pulse_settings, d.hold_settings, "rule " + _name)
                return _orig(*a, **kw)
            setattr(plat, name, wrapped)
        for n in I_COILS:
            hw = m.coils[n].hw_driver
            for call in ("pulse", "enable", "timed_enable"):
                orig = getattr(hw, call)

                def wcall(*a, _orig=orig, _call=call, _n=n):
                    seen["calls"] += 1
                    pulse = a[0] if _call in ("pulse",) else (a[0] if a else None)
                    hold = a[1] if _call in ("enable", "timed_enable") and len(a) > 1 else None
                    judge(_n, pulse, hold, "driver." + _call)
                    return _orig(*a)
                setattr(hw, call, wcall)
        for o in case["ops"]:
            if vio:
                break
            k = o[0]
            try:
                if k == "enable":
                    m.events.post("en_" + o[1])
                    rig.run_ready()
                elif k == "disable":
                    m.events.post("dis_" + o[1])
                    rig.run_ready()
                elif k == "flip":
                    m.events.post("flip_" + o[1])
                    rig.run_ready()
                    classes.add("software flip")
                elif k == "release":
                    m.events.post("release_" + o[1])
                    rig.run_ready()
                elif k == "button":
                    m.switch_controller.process_switch(o[1], o[2], logical=True)
                    rig.run_ready()
                elif k == "ball_search":
                    bs = m.playfield.ball_search
                    bs.enable()
                    bs.start()
                    rig.advance(o[1] / 1000.0)
                    bs.stop()
                    bs.disable()
                    rig.run_ready()
                    classes.add("ball search")
                elif k == "advance":
                    rig.advance(o[1] / 1000.0)
            except Exception as e:   # pylint: disable=broad-except
                # a refusal (DriverLimitsError and friends) is what the property asks for; it is not a violation
                classes.add("refused:" + type(e).__name__)
            for ctx in rig.exceptions:
                classes.add("refused:" + type(ctx.get("exception")).__name__)
            del rig.exceptions[:]
        if not vio:
            # whatever happened, nothing may be left energised: buttons released, software flips released, every device
            # disabled, ball search over - then 3 s for every software timer (ball-search hold times are <= 200 ms here)
            try:
                for swn in ("s_flip1", "s_flip2", "s_eos2", "s_flip3", "s_eos3", "s_flip4", "s_af1", "s_af2", "s_kb"):
                    m.switch_controller.process_switch(swn, 0, logical=True)
                for f in I_DEVS["flippers"]:
                    if any(o[0] == "flip" and o[1] == f for o in case["ops"]):
                        m.events.post("release_" + f)       # only the case's own software flips are released by hand
                rig.advance(3.0)        # (devices stay as they are: with no button pressed no rule holds a coil)
            except Exception:   # pylint: disable=broad-except
                pass
            hot = [n for n in I_COILS if getattr(m.coils[n].hw_driver, "state", None) == "enabled"]
            if hot:
                v("integration:coil-left-on", "3 s after every button and software flip was released and ball search had "
                  "stopped, coil(s) %r are still enabled" % hot)
        if seen["rules"]:
            classes.add("hardware rule installed")
        if seen["calls"]:
            classes.add("driver call")
    finally:
        rig.stop()
    nontrivial = "setting close to a limit reached the platform" in classes or any(c.startswith("refused:") for c in classes)
    return Result(vio or None, sorted(classes) or ["plain"], nontrivial)


SUBCHECKS = [
    SubCheck("api", case_strategy, check, quick=3000, thorough=60000, procs_quick=8),
    SubCheck("integration", lambda: case_integration, check_integration, quick=1500, thorough=30000, procs_quick=6),
]
