"""C12 — Config validation returns well-typed complete configs or rejects."""
import copy
import re
from fractions import Fraction

from hypothesis import strategies as st

from vlib.engine import Result, SubCheck, violation
from vlib.rig import Rig

PROPERTY = "C12"
LEVEL = "exploration"
RULE = ("sections: a case picks one of the (enumerated) sections/sub-sections of the loaded config_spec, a subset of "
        "its keys and, per key, a value drawn by validator kind (valid-looking values, range boundaries, wrong-typed "
        "YAML scalars, nested lists/dicts, None, empty strings, '(token)' and '{template}' strings), optionally an "
        "unknown key at top level or inside a sub-config. Non-trivial = at least one value outside the validator's "
        "natural type or on a declared range boundary, or an unknown key. time: number x suffix strings for every "
        "suffix the parser mentions; non-trivial = fractional or exponent number, or a d/h/m suffix. Distinct = "
        "distinct case hash; '#cov' counts the distinct (section, key) pairs exercised.")
ASSUMPTIONS = [
    "any raised exception counts as a rejection (the statement only forbids returning a bad config)",
    "None is a value every validator may return (the spec's 'None' defaults)",
    "colours are checked for shape (three ints / kivy list / token), not for channel range: the spec declares none",
    "platform-specific validate_*_section overrides of hardware platforms are not exercised",
    "time strings: a result within 1 ms of number x unit is correct (the parser truncates to whole ms)",
]

_RIG = []


def rig():
    if not _RIG:
        _RIG.append(Rig("validator").start())
    return _RIG[0]


def sections():
    """All section paths of the spec that contain typed keys (nested ones as a:b)."""
    spec = rig().machine.config_validator.config_spec
    out = []

    def walk(path, d):
        if any(isinstance(v, (list, tuple)) and len(v) == 3 for v in d.values()):
            out.append(":".join(path))
        for k, v in d.items():
            if isinstance(v, dict) and not k.startswith("_"):
                walk(path + [k], v)
    for k in sorted(spec):
        if isinstance(spec[k], dict) and not k.startswith("_"):
            walk([k], spec[k])
    return out


def spec_of(path):
    d = rig().machine.config_validator.config_spec
    for p in path.split(":"):
        d = d[p]
    return d


def split_validator(v):
    if "(" in v and v.endswith(")"):
        a, b = v.split("(", 1)
        return a, b[:-1]
    return v, None


JUNK = [None, "", " ", "none", "None", 0, 1, -1, 2.5, True, False, "abc", "1", "-1", "1.5", "yes", "no", "(tok)",
        "{machine.x}", "0x10", "ff00ff", "red", "1s", "100ms", "2m", [], [1, 2], ["a", "b"], {}, {"a": 1}, {"a": {"b": 2}},
        "a, b", "a,,b", 10 ** 12, -2.5, "1e3", float("inf"), "nan"]
junk = st.sampled_from(JUNK)


def device_name(coll):
    c = getattr(rig().machine, coll, None)
    try:
        names = sorted(c.keys())
    except Exception:   # pylint: disable=broad-except
        names = []
    return st.sampled_from(names) if names else st.just("nonexistent_device")


def value_strategy(validator, depth=0):
    name, param = split_validator(validator)
    base = name.replace("_or_token", "")
    good = junk
    if base in ("int", "float", "num"):
        nums = [0, 1, -1, 5, 255, 256, "3", "-3", 2.5, "2.5", "nan", "inf", "-inf", float("nan"), float("inf"), "1e400"]
        if param:
            lo, hi = param.split(",")
            for b in (lo, hi):
                if b != "NONE":
                    f = float(b)
                    nums += [f, f - 1, f + 1, int(f), str(f), f + 0.001, f - 0.001]
        good = st.sampled_from(nums)
    elif base in ("bool", "boolean", "bool_int", "template_bool"):
        good = st.sampled_from([True, False, "true", "no", "on", "Yes", "t", 1, 0, "maybe"])
    elif base in ("ms", "secs", "template_ms", "template_secs"):
        good = st.sampled_from([0, 100, "100ms", "2s", "1.5s", "3m", "1h", "1d", 2.5, "20", "1e3s", "5 s", "-1s"])
    elif base in ("str", "lstr", "event_posted", "event_handler", "template_str"):
        good = st.sampled_from(["abc", "Some Text", "ev_1", "a{b}", "(x)", 5, 1.5, True, "x|2s", "a.2"])
    elif base in ("template_int", "template_float"):
        good = st.sampled_from([1, "2", 1.5, "1.5", "machine.x + 1", "5 if a else 2", "(", "settings.y"])
    elif base == "enum":
        vals = param.split(",")
        good = st.sampled_from(vals + [v.upper() for v in vals] + ["not_in_enum", True, False, None, 1])
    elif base == "machine":
        good = st.one_of(device_name(param), st.sampled_from(["missing_dev", "", 5, None]))
    elif base == "subconfig" and depth < 2:
        sub = param.split(",")[0]
        good = st.one_of(source_strategy(sub, depth + 1), junk)
    elif base in ("color", "kivycolor"):
        good = st.sampled_from(["red", "ff0000", "FF00FF", "255, 0, 0", [1, 2, 3], "1,2", "(tok)", "zz", 5, "0, 0, 0, 0"])
    elif base == "list":
        good = st.sampled_from(["a, b", ["a", "b"], "a", [], None, 5])
    elif base == "dict":
        good = st.sampled_from([{}, {"a": "b"}, {"a": 1}, "x", None, [1]])
    elif base in ("gain", "pow2", "int_from_hex"):
        good = st.sampled_from([0.5, "0.5", "-3db", "-3 db", 1, 2, 3, 4, 8, "10", "ff", "0x1f", "zz", -1])
    elif ":" in validator:
        k, v = validator.split(":", 1)
        if depth < 2:
            good = st.one_of(st.dictionaries(value_strategy(k, 2).filter(lambda x: isinstance(x, (str, int, float, bool)) or x is None),
                                             value_strategy(v, depth + 1), max_size=2), junk)
    tokens = st.sampled_from(["(some_token)", "()", "(a"]) if name.endswith("_or_token") else st.nothing()
    return st.one_of(good, good, good, junk, tokens)


def item_strategy(entry, depth=0):
    item_type, validation, default = entry
    del default
    if item_type == "single":
        return value_strategy(validation, depth)
    if item_type in ("list", "set"):
        one = value_strategy(validation, depth)
        return st.one_of(one, st.lists(one, max_size=3), st.sampled_from(["a, b", "", None]))
    if item_type == "event_handler":
        return st.sampled_from(["ev_a", "ev_a, ev_b", "ev_a|2s", ["ev_a", "ev_b|100ms"], {"ev_a": "1s"}, {"ev_a": 0},
                                None, 5, {"ev_a": "x"}, [{"a": 1}], ""])
    if item_type == "dict":
        return value_strategy(validation, depth)
    return junk


@st.composite
def source_strategy(draw, path, depth=0):
    spec = spec_of(path)
    keys = [k for k, v in spec.items() if not k.startswith("_") and v != "ignore"]
    chosen = draw(st.lists(st.sampled_from(keys), max_size=min(4, len(keys)), unique=True)) if keys else []
    src = {}
    for k in chosen:
        v = spec[k]
        if isinstance(v, dict):
            if depth < 2:
                src[k] = draw(st.one_of(st.lists(source_strategy(path + ":" + k, depth + 1), max_size=2), junk))
        else:
            src[k] = draw(item_strategy(v, depth))
    # required keys (no default): usually provide them, otherwise nearly every source is rejected for that reason
    for k in keys:
        v = spec[k]
        if k not in src and not isinstance(v, dict) and v[2] == "" and draw(st.integers(0, 9)) < 8:
            src[k] = draw(item_strategy(v, depth))
    u = draw(st.integers(0, 14))
    if u == 0:
        src[draw(st.sampled_from(["unknown_key", "zz_typo", "Number"]))] = draw(junk)
    elif u == 1:
        src["_private"] = draw(junk)
    elif u == 2:
        # an unknown key that is not a string (YAML "7:", "1.5:", "true:", "~:"); kept as a marker because JSON object
        # keys are strings - check_sections() turns it into the real key
        src["~nonstr"] = draw(st.sampled_from([["int", 7], ["float", 1.5], ["bool", True], ["none", None]]))
    return src


def case_sections():
    secs = sections()
    return st.sampled_from(secs).flatmap(lambda p: st.fixed_dictionaries({"section": st.just(p), "source": source_strategy(p)}))


# ---- oracle ----------------------------------------------------------------------------------------
class Bad(Exception):
    pass


def is_template(r):
    return hasattr(r, "evaluate") or hasattr(r, "evaluate_and_subscribe")


def check_scalar(validator, r, where):
    from mpf.core.config_validator import RuntimeToken
    name, param = split_validator(validator)
    if name.endswith("_or_token"):
        if isinstance(r, RuntimeToken):
            return
        name = name[:-len("_or_token")]
    if r is None:
        return

    def bad(msg):
        raise Bad("%s: validator %s returned %r (%s)" % (where, validator, r, msg))

    def rng(x):
        if param:
            lo, hi = param.split(",")
            if lo != "NONE" and x < float(lo):
                bad("below declared minimum %s" % lo)
            if hi != "NONE" and x > float(hi):
                bad("above declared maximum %s" % hi)
        if x != x:
            bad("NaN is not inside any range")
    if name == "int":
        if type(r) is not int:
            bad("not an int")
        rng(r)
    elif name == "float":
        if type(r) is not float:
            bad("not a float")
        if param:
            rng(r)
    elif name == "num":
        if not isinstance(r, (int, float)):     # num "does not convert": a YAML bool stays the int subclass it is
            bad("not a number")
        if param:
            rng(r)
    elif name in ("bool", "boolean"):
        if type(r) is not bool:
            bad("not a bool")
    elif name == "bool_int":
        if r not in (0, 1) or type(r) is not int:
            bad("not 0/1")
    elif name == "ms":
        if type(r) is not int:
            bad("ms must be an int")
    elif name == "secs":
        if type(r) is not float:
            bad("secs must be a float")
    elif name in ("str", "event_posted", "event_handler"):
        if type(r) is not str:
            bad("not a str")
    elif name == "lstr":
        if type(r) is not str or r != r.lower():
            bad("not a lower-case str")
    elif name.startswith("template_"):
        if not is_template(r):
            bad("not a template object")
    elif name == "enum":
        allowed = param.lower().split(",")
        if not (isinstance(r, str) and r in allowed):
            bad("not one of the enum values")
    elif name == "machine":
        coll = getattr(rig().machine, param, None)
        if coll is None or r not in list(coll.values()):
            bad("not a device of machine.%s" % param)
    elif name == "list":
        if not isinstance(r, list):
            bad("not a list")
    elif name == "dict":
        if not isinstance(r, dict):
            bad("not a dict")
        if param:
            kv, vv = param.split(":", 1)
            for k, v in r.items():
                check_scalar(kv, k, where + ".key")
                check_scalar(vv, v, where + "[%r]" % (k,))
    elif name == "color":
        if not (hasattr(r, "__len__") and len(r) == 3 and all(isinstance(x, int) for x in r)):
            bad("not an RGB triple")
    elif name == "kivycolor":
        if not (isinstance(r, str) or (isinstance(r, list) and len(r) in (3, 4) and all(isinstance(x, (int, float)) for x in r))):
            bad("not a kivy colour")
    elif name == "int_from_hex":
        if type(r) is not int:
            bad("not an int")
    elif name == "pow2":
        # the repo's own test fixes that pow2 hands the value back unconverted ('128' stays '128')
        try:
            n = int(r)
        except (TypeError, ValueError):
            bad("not a power of two")
        if not (n > 0 and n & (n - 1) == 0):
            bad("not a power of two")
    elif name == "gain":
        if type(r) not in (int, float):
            bad("not a number")
    elif name == "subconfig":
        if r == {}:
            return      # "no sub-config given" (default None) is represented by an empty dict
        sub = param.split(",")[0]
        base = tuple(param.split(",")[1:]) or None
        check_result(sub, r, where, base)
    else:
        raise Bad("harness: unknown validator %s" % validator)


def check_entry(entry, r, where):
    item_type, validation, default = entry
    del default
    if item_type == "single":
        check_scalar(validation, r, where)
    elif item_type == "list":
        if not isinstance(r, list):
            raise Bad("%s: list entry returned %r" % (where, r))
        for i, x in enumerate(r):
            check_scalar(validation, x, "%s[%d]" % (where, i))
    elif item_type == "set":
        if not isinstance(r, set):
            raise Bad("%s: set entry returned %r" % (where, r))
        for x in r:
            check_scalar(validation, x, where + "{}")
    elif item_type == "dict":
        if not isinstance(r, dict):
            raise Bad("%s: dict entry returned %r" % (where, r))
        kv, vv = validation.split(":", 1)
        for k, v in r.items():
            check_scalar(kv, k, where + ".key")
            check_scalar(vv, v, "%s[%r]" % (where, k))
    elif item_type == "event_handler":
        if not isinstance(r, dict):
            raise Bad("%s: event_handler entry returned %r" % (where, r))
        for k, v in r.items():
            if type(k) is not str or (v is not None and type(v) is not int):
                raise Bad("%s: event_handler entry %r: %r is not event -> ms" % (where, k, v))


def check_result(path, res, where, base=None):
    cv = rig().machine.config_validator
    spec = cv.build_spec(path, base) if base else spec_of(path)
    if not isinstance(res, dict):
        raise Bad("%s: section %s returned %r, not a dict" % (where, path, res))
    for k, v in spec.items():
        if k.startswith("_") or v == "ignore":
            continue
        if k not in res:
            raise Bad("%s: key %s of spec %s is missing from the result" % (where, k, path))
        if isinstance(v, dict):
            if not isinstance(res[k], list):
                raise Bad("%s.%s: nested section returned %r" % (where, k, res[k]))
            for i, sub in enumerate(res[k]):
                check_result(path + ":" + k, sub, "%s.%s[%d]" % (where, k, i))
        else:
            check_entry(v, res[k], "%s.%s" % (where, k))
    if "__allow_others__" not in spec:
        for k in res:
            if k not in spec and not (isinstance(k, str) and k.startswith("_")):
                raise Bad("%s: unknown key %r was accepted by section %s" % (where, k, path))


def natural(validator, v):
    name, _ = split_validator(validator)
    name = name.replace("_or_token", "")
    if name in ("int", "float", "num", "ms", "secs"):
        return isinstance(v, (int, float)) and not isinstance(v, bool)
    if name in ("bool", "boolean"):
        return isinstance(v, bool)
    if name in ("str", "lstr", "event_posted", "event_handler", "enum", "machine"):
        return isinstance(v, str)
    return True


def fresh(x):
    """A copy without shared sub-objects (generated values may reuse one {} or [] object in several places, which a config
    file cannot - short of YAML anchors, which are not part of the domain - and which a replay from JSON does not either)."""
    if isinstance(x, dict):
        return {k: fresh(v) for k, v in x.items()}
    if isinstance(x, list):
        return [fresh(v) for v in x]
    return x


def check_sections(case):
    path, source = case["section"], fresh(case["source"])
    cv = rig().machine.config_validator
    spec = spec_of(path)
    before = copy.deepcopy(spec)
    src = copy.deepcopy(source)
    classes = []
    nontrivial = False
    if isinstance(src, dict) and "~nonstr" in src:
        kind, key = src.pop("~nonstr")
        src[key] = "junk"
        classes.append("unknown-key-not-a-string:" + kind)
        nontrivial = True
    for k, v in source.items():
        if k in spec and not isinstance(spec[k], dict) and spec[k] != "ignore" and not k.startswith("_"):
            val = split_validator(spec[k][1])[0]
            classes.append("#cov:%s.%s" % (path, k))
            classes.append("v:" + val)
            if not natural(spec[k][1], v):
                nontrivial = True
        elif k not in spec:
            nontrivial = True
            classes.append("unknown-key" if not k.startswith("_") else "underscore-key")
    vio = []
    try:
        res = cv.validate_config(path, src)
    except Exception as e:   # pylint: disable=broad-except
        classes.append("rejected:" + type(e).__name__)
        res = None
    else:
        classes.append("accepted")
        try:
            check_result(path, res, path)
            for k in src:
                if k not in res:
                    raise Bad("provided key %r was dropped" % (k,))
        except Bad as e:
            msg = str(e)
            kind = "unknown-key-accepted" if "unknown key" in msg else (
                "missing-key" if "missing from the result" in msg else (
                    "dropped-key" if "dropped" in msg else "ill-typed:" + _vname(msg)))
            vio.append(violation(kind, "validate_config(%r, %r) returned a bad config: %s" % (path, source, msg)))
    if spec != before:
        vio.append(violation("spec-modified", "validating section %s with %r modified the spec" % (path, source)))
    return Result(vio or None, classes, nontrivial)


def _vname(msg):
    import re
    m = re.search(r"validator ([a-z_0-9]+)", msg)
    return m.group(1) if m else "entry"


# ---- time strings ------------------------------------------------------------------------------------
UNITS = {"ms": 1, "msec": 1, "s": 1000, "sec": 1000, "m": 60000, "h": 3600000, "d": 86400000, "": None}
numtext = st.one_of(
    st.integers(0, 100000).map(str), st.integers(0, 100000).map(str),
    st.tuples(st.integers(0, 999), st.integers(0, 999)).map(lambda t: "%d.%03d" % t),
    st.tuples(st.integers(0, 99), st.integers(1, 9)).map(lambda t: "%d.%d" % t),
    st.tuples(st.integers(1, 9), st.integers(0, 4)).map(lambda t: "%de%d" % t),
    st.tuples(st.integers(1, 99), st.integers(1, 3)).map(lambda t: "%de-%d" % t),
    st.sampled_from(["-1", "-0.5", ".5", "5.", "1_0", " 7", "0x10", "inf", "nan"]),
)
# (a tuple mapped to a dict rather than fixed_dictionaries: Hypothesis cannot replay fixed_dictionaries with four or
# more keys from a raw byte buffer, which would make the coverage-guided campaign reject every input)
case_time = st.tuples(numtext, st.sampled_from(list(UNITS)), st.booleans(), st.booleans(),
                      st.sampled_from(["ms", "secs"]), st.booleans()).map(
    lambda t: dict(zip(("num", "suffix", "upper", "space", "fn", "as_number"), t)))


def check_time(case):
    from mpf.core.utility_functions import Util
    text = case["num"] + (" " if case["space"] else "") + (case["suffix"].upper() if case["upper"] else case["suffix"])
    arg = text
    classes = ["suffix-" + (case["suffix"] or "none"), "fn-" + case["fn"]]
    if case["as_number"] and case["suffix"] == "":
        try:
            arg = int(case["num"])
        except ValueError:
            try:
                arg = float(case["num"])
            except ValueError:
                arg = text
    fn = Util.string_to_ms if case["fn"] == "ms" else Util.string_to_secs
    try:
        got = fn(arg)
    except Exception as e:   # pylint: disable=broad-except
        classes.append("rejected:" + type(e).__name__)
        # documented forms must be accepted: <int>ms, <number>s, bare int
        plain_int = case["num"].isdigit() and not case["space"]
        if plain_int and case["suffix"] in ("ms", "s", ""):
            return Result([violation("documented-form-rejected", "%s(%r) raised %r" % (fn.__name__, arg, e))], classes, False)
        return Result(None, classes, False)
    classes.append("accepted")
    # intended value
    try:
        n = Fraction(case["num"].strip().replace("_", ""))
    except (ValueError, ZeroDivisionError):
        return Result(None, classes + ["odd-number-text"], False)
    unit = UNITS[case["suffix"]]
    if unit is None:
        unit = 1 if case["fn"] == "ms" else 1000
    exp_ms = n * unit
    got_ms = Fraction(got) if case["fn"] == "ms" else Fraction(got) * 1000
    nontrivial = ("." in case["num"] or "e" in case["num"]) or case["suffix"] in ("d", "h", "m")
    vio = None
    if case["fn"] == "ms" and type(got) is not int:
        vio = [violation("ms-not-int", "string_to_ms(%r) returned %r" % (arg, got))]
    elif abs(got_ms - exp_ms) > 1 + Fraction(1, 1000):
        vio = [violation("time-value:%s" % (case["suffix"] or "none"), "%s(%r) returned %r, but %s x %s ms = %s ms" % (
            fn.__name__, arg, got, case["num"], unit, float(exp_ms)))]
    return Result(vio, classes, nontrivial)


# ---- config players: the names of variables / events / score queues are part of the validated config -----------------
NAME_OK = re.compile(r"[0-9a-zA-Z_-]+")
_good = st.text(alphabet="abcXYZ019_-", min_size=1, max_size=6)
_badch = st.sampled_from(list(".%/+!*&;@$^~=,'\"\\<>?#") + ["é", " ", "\t"])
_name_alts = [
    _good,
    st.tuples(_good, _badch, st.one_of(st.just(""), _good)).map("".join),      # starts legal, illegal later
    st.tuples(_badch, _good).map("".join),
    st.tuples(_good, _badch).map("".join),
]
# (one_of drops repeated branches, so the weights are drawn explicitly: three of four names are legal)
name_text = st.sampled_from([0] * 9 + [1, 2, 3]).flatmap(lambda i: _name_alts[i])
cond_text = st.sampled_from(["", "", "{True}", "{1>0}", "{False}", "{2==2 and 1}"])
player_entry = st.tuples(name_text, cond_text, st.sampled_from([1, 10, "5", "1|block"]))
case_players = st.tuples(st.sampled_from(["variable_player", "event_player", "score_queue_player_player"]),
                         st.lists(player_entry, min_size=1, max_size=4, unique_by=lambda e: e[0]),
                         st.sampled_from(["dict", "list", "string"])).map(
    lambda t: {"player": t[0], "entries": [list(e) for e in t[1]], "form": t[2]})


def check_players(case):
    """validate_config_entry of a config player either rejects or returns entries whose names are names: letters,
    digits, dashes and underscores only (what its own error message states), one entry per provided name."""
    m = rig().machine
    player = getattr(m, case["player"])
    entries = case["entries"]
    keys = [e[0] + e[1] for e in entries]
    if case["player"] == "event_player":
        settings = {"dict": {k: {} for k in keys}, "list": list(keys), "string": ", ".join(keys)}[case["form"]]
    else:
        settings = {k: (e[2] if case["player"] == "variable_player" or not isinstance(e[2], str) or "|" not in e[2] else 3)
                    for k, e in zip(keys, entries)}
    legal = all(NAME_OK.fullmatch(e[0]) for e in entries)
    classes = [case["player"], "all names legal" if legal else "illegal name"]
    if any(e[1] for e in entries):
        classes.append("conditional")
    if not legal and any(NAME_OK.match(e[0]) and not NAME_OK.fullmatch(e[0]) for e in entries):
        classes.append("illegal character after a legal start")
    vio = []
    try:
        res = player.validate_config_entry(copy.deepcopy(settings), "verif_ctx")
    except Exception as e:   # pylint: disable=broad-except
        classes.append("rejected:" + type(e).__name__)
        if legal and case["form"] != "string" and not (case["player"] == "event_player" and False):
            # legal names with legal values: must be accepted
            vio.append(violation("players:legal-entry-rejected", "%s.validate_config_entry(%r) raised %r although every name "
                                 "consists of letters, digits, dashes and underscores" % (case["player"], settings, e)))
    else:
        classes.append("accepted")
        bad = [k for k in res if not isinstance(k, str) or not NAME_OK.fullmatch(k)]
        if bad:
            vio.append(violation("players:ill-formed-name-accepted", "%s.validate_config_entry(%r) returned entries named %r: names "
                                 "may only contain letters, numbers, dashes and underscores" % (case["player"], settings, bad)))
        missing = [e[0] for e in entries if e[0] not in res]
        # (the one-string form is split by Util.string_to_event_list, which treats every character that cannot be part of
        # an event name as a separator: there the provided text does not determine the entries)
        if missing and not bad and case["form"] != "string":
            vio.append(violation("players:dropped-entry", "%s.validate_config_entry(%r) returned %r: the provided entries %r "
                                 "are missing" % (case["player"], settings, sorted(res), missing)))
    return Result(vio or None, classes, not legal or "conditional" in classes)


# ---- validator types with parameters the shipped spec does not use (mode, platform and device specs do) -------------------
SYN_TYPES = ["int", "float", "num", "int_or_token", "float_or_token", "num_or_token"]
SYN_RANGES = ["0,10", "-5,5", "NONE,3", "1,NONE", "0,255", "0.5,1.5", None]
SYN_PLAIN = ["ms_or_token", "secs_or_token", "bool_or_token", "str_or_token"]


@st.composite
def case_synthetic(draw):
    if draw(st.integers(0, 5)) == 0:
        validator = draw(st.sampled_from(SYN_PLAIN))
    else:
        t, r = draw(st.sampled_from(SYN_TYPES)), draw(st.sampled_from(SYN_RANGES))
        validator = t + ("(%s)" % r if r else "")
    container = draw(st.sampled_from(["single", "single", "list", "dict"]))
    if container == "single":
        value = draw(value_strategy(validator))
    elif container == "list":
        value = draw(st.one_of(st.lists(value_strategy(validator), max_size=3), value_strategy(validator)))
    else:
        value = draw(st.one_of(st.dictionaries(st.sampled_from(["a", "b", "c"]), value_strategy(validator), max_size=3), junk))
    return {"validator": validator, "container": container, "value": value}


_SYN_DONE = set()


def check_synthetic(case):
    """A one-key spec `v: <container>|<type>(<range>)|` is registered the way modes/platforms register theirs; the result
    of validating {v: value} against it is judged by the same per-validator predicate as the shipped sections."""
    cv = rig().machine.config_validator
    validator = case["validator"] if case["container"] != "dict" else "str:" + case["validator"]
    name = "c12syn_%s_%s" % (case["container"], re.sub(r"[^0-9a-zA-Z]", "_", case["validator"]))
    if name not in _SYN_DONE:
        cv.load_mode_config_spec(name, {"v": "%s|%s|" % (case["container"], validator)})
        _SYN_DONE.add(name)
    path = "_mode_settings:" + name
    spec = spec_of(path)
    before = copy.deepcopy(spec)
    src = {"v": fresh(case["value"])}
    classes = ["t:" + split_validator(case["validator"])[0], case["container"]]
    _, param = split_validator(case["validator"])
    if param:
        classes.append("ranged")
    vio = []
    try:
        res = cv.validate_config(path, src)
    except Exception as e:   # pylint: disable=broad-except
        classes.append("rejected:" + type(e).__name__)
    else:
        classes.append("accepted")
        try:
            check_result(path, res, path)
        except Bad as e:
            vio.append(violation("synthetic:ill-typed:" + _vname(str(e)), "spec 'v: %s|%s|', validate_config(%r) returned a bad config: %s" % (
                case["container"], validator, {"v": case["value"]}, e)))
    if spec != before:
        vio.append(violation("spec-modified", "validating %r against %s modified the spec" % (case["value"], path)))
    return Result(vio or None, classes, bool(param))


SUBCHECKS = [
    SubCheck("sections", case_sections, check_sections, quick=24000, thorough=600000, procs_quick=10),
    SubCheck("synthetic", case_synthetic, check_synthetic, quick=6000, thorough=150000, procs_quick=2),
    SubCheck("players", lambda: case_players, check_players, quick=3000, thorough=60000, procs_quick=2),
    SubCheck("time", lambda: case_time, check_time, quick=6000, thorough=200000, procs_quick=2,
             fuzz={"quick": 4000, "thorough": 300000, "modules": ['mpf.core.utility_functions', 'mpf.core.config_validator']}),
]
