"""C01 — Event dispatch is complete, priority-ordered and serial."""
from props import evprog
from vlib.engine import Result, SubCheck, violation
from vlib.rig import Rig

PROPERTY = "C01"
LEVEL = "exploration"
RULE = ("A case is a generated handler program: up to 10 handler specs (event, priority in [-3,3], registered kwargs, "
        "condition, return value, script of post/add/remove/replace actions), a prior history of registrations and "
        "removals, and up to 8 top-level operations posting from four contexts (direct, DelayManager callback, untimed "
        "and timed switch handler, completion callback). Non-trivial = the executed log contains a post made by a "
        "handler that itself ran for a handler-posted event (depth >= 2), or a registration/removal made during a "
        "dispatch, or a priority tie inside one dispatch, or a callback that posts, or a delay run_now()/switch hit issued by a "
        "handler, or a wait_for_(any_)event / post_async future that resolved, or a handler blocked by a returned "
        "_min_priority (handlers may carry a blocking facility). Distinct = distinct case hash.")
ASSUMPTIONS = [
    "handlers never raise (an exception in a handler stops MPF by design)",
    "queue events are C02's domain and are not generated here",
    "posting programs are cut at 40 posts per case (counted as class 'budget-cut')",
    "replace_handler is only applied to handlers registered under a plain event name (no condition suffix)",
    "at most 8 wait futures per case; without the always-registered handlers a dispatch that ran no logged handler may "
    "resolve a wait future but never has to (when it began is not observable)",
    "when no sentinel handlers are installed (1 case in 4) the depth-first order clause is not checked, and an event "
    "posted while it has neither handler nor callback may be dropped at post time (left open by the statement)",
]


def classify(case, log):
    classes = set()
    invs = {}
    posts = {}
    depth = {}
    cur_span_regs = False
    for e in log:
        if e[0] == "INV_START":
            invs[e[1]] = e[3]
        elif e[0] == "POST":
            ctx = e[4]
            posts[e[1]] = ctx
            d = 0
            if ctx[0] == "inv":
                d = depth.get(invs.get(ctx[1]), 0) + 1
            depth[e[1]] = d
            classes.add("ctx-" + ctx[0])
            if d >= 2:
                classes.add("depth>=2")
            if e[3]:
                classes.add("type-" + e[3])
        elif e[0] in ("REG", "UNREG") and e[-1] and e[-1][0] == "inv":
            classes.add("registry-change-during-dispatch")
        elif e[0] == "HIT_SWITCH" and e[-1] and e[-1][0] == "inv":
            classes.add("delay/switch-callback-inside-handler")
        elif e[0] == "RUN_NOW" and e[2] and e[-1] and e[-1][0] == "inv":
            classes.add("delay/switch-callback-inside-handler")
            classes.add("run_now-of-pending-delay-inside-handler")
        elif e[0] == "WAITREG":
            classes.add("wait-future" + ("-registered-inside-handler" if e[3] and e[3][0] == "inv" else ""))
        elif e[0] == "WAITDONE":
            classes.add("wait-future-resolved")
        elif e[0] == "ASYNCDONE":
            classes.add("post_async-resolved")
        elif e[0] == "REG" and e[-1] and e[-1][0] == "cb":
            classes.add("registry-change-in-callback")
    # priority ties within a dispatch
    byp = {}
    for e in log:
        if e[0] == "INV_START" and not isinstance(e[2], str):
            byp.setdefault(e[3], []).append(case["specs"][e[2]]["prio"])
    if any(len(v) != len(set(v)) for v in byp.values()):
        classes.add("priority-tie")
    if any(c[0] == "cb" for c in posts.values()):
        classes.add("callback-posts")
    if not case.get("sentinels", True):
        classes.add("no-sentinels")
    nontrivial = bool(classes & {"depth>=2", "registry-change-during-dispatch", "priority-tie", "callback-posts",
                                 "delay/switch-callback-inside-handler", "wait-future-resolved", "post_async-resolved"})
    return sorted(classes), nontrivial


def check(case):
    with Rig("events") as rig:
        it = evprog.Interp(rig, case)
        try:
            log = it.run()
        except Exception as e:   # pylint: disable=broad-except
            import traceback
            return Result([violation("exception:" + type(e).__name__, "program raised %r\n%s" % (e, traceback.format_exc()[-1500:]))],
                          ["raised"], True)
        exc = rig.exception_summaries()
        skipped = it.skipped_posts
    oracle = evprog.Oracle(case, log)
    vio = oracle.run()
    if exc:
        vio.append(violation("loop-exception", "exception reached the loop: %s" % exc[:2]))
    classes, nontrivial = classify(case, log)
    if getattr(oracle, "n_blocked", 0):
        classes.append("handler blocked by a returned _min_priority")
        nontrivial = True
    if skipped:
        classes.append("budget-cut")
    return Result(vio or None, classes, nontrivial)


SUBCHECKS = [
    SubCheck("dispatch", lambda: evprog.program(queue=False), check, quick=2500, thorough=100000, procs_quick=8),
]
