"""C19 — BCP messages round-trip exactly and reassemble from any chunking."""
import asyncio
import math

from hypothesis import strategies as st

from vlib.engine import Result, SubCheck, violation

PROPERTY = "C19"
LEVEL = "exploration"
RULE = ("roundtrip: generated (command, kwargs) with token-seeded strings, ints, floats (incl. inf/nan), bools, None "
        "and nested lists/dicts; non-trivial = some string value contains a separator (& = ? # + : / % space newline), "
        "a percent escape or a type-like prefix, or some value is nested. stream: 1-8 encoded messages (some with a "
        "&bytes=N raw payload) concatenated and split at generated points; non-trivial = at least one split falls "
        "strictly inside a message line or inside a payload. Distinct = distinct case hash.")
ASSUMPTIONS = [
    "command and parameter names are drawn from the identifier alphabet [a-z_][a-z0-9_]* (the protocol's own names); "
    "the reserved parameter names 'json' and 'rawbytes' are excluded",
    "lone surrogate code points are excluded from strings (not encodable as UTF-8, so not transmittable at all)",
    "tuples, sets and non-string dict keys are not in the 'supported value types' (JSON cannot carry them)",
    "the pickle client is not a line encoding and is not covered",
]

TOKENS = ["%", "&", "=", "?", "#", "+", ":", "/", "\\", " ", "\n", "\r", "\t", "%41", "%2520", "%zz", "int:", "int:5",
          "float:", "float:1.5", "bool:true", "bool:false", "Bool:True", "NoneType:", "&bytes=", "&bytes=3", "json=",
          "json={}", "a=b&c=d", "é", "日本", "\U0001f3b1", "\x00", "\x7f", "'", '"', "[", "]", "{", "}", ";", ",", "//",
          "http://x", "0", "-1", "1e5", "nan", "True", "None", ""]

ident = st.from_regex(r"[a-z_][a-z0-9_]{0,8}", fullmatch=True)
pname = ident.filter(lambda s: s not in ("json", "rawbytes"))

text = st.one_of(
    st.lists(st.one_of(st.sampled_from(TOKENS), st.text(alphabet=st.characters(exclude_categories=["Cs"]), max_size=6)),
             max_size=6).map("".join),
    st.text(alphabet=st.characters(exclude_categories=["Cs"]), max_size=64),
    st.sampled_from(TOKENS),
)
ints = st.one_of(st.integers(-10, 10), st.integers(), st.integers(-10 ** 60, 10 ** 60))
floats = st.one_of(st.floats(allow_nan=True, allow_infinity=True), st.sampled_from([0.0, -0.0, 1e-5, 1e22, 0.1, 1.5]))
scalar = st.one_of(text, ints, floats, st.booleans(), st.none())
nested = st.recursive(scalar, lambda ch: st.one_of(st.lists(ch, max_size=4), st.dictionaries(text, ch, max_size=4)),
                      max_leaves=10)
container = st.one_of(st.lists(nested, max_size=4), st.dictionaries(text, nested, max_size=4))


def kwargs_strategy(allow_nested=True):
    val = st.one_of(scalar, scalar, container) if allow_nested else scalar
    return st.dictionaries(pname, val, max_size=8)


case_rt = st.fixed_dictionaries({"cmd": ident, "kwargs": kwargs_strategy()})


def same(a, b):
    """Equal values with equal types; NaN equals NaN; -0.0 distinguished from 0.0 only by repr."""
    if type(a) is not type(b):
        return False
    if isinstance(a, float):
        if math.isnan(a) or math.isnan(b):
            return math.isnan(a) and math.isnan(b)
        return a == b
    if isinstance(a, list):
        return len(a) == len(b) and all(same(x, y) for x, y in zip(a, b))
    if isinstance(a, dict):
        return list(sorted(a.keys())) == list(sorted(b.keys())) and all(same(a[k], b[k]) for k in a)
    return a == b


SEPS = set("&=?#+:/% \n\r\t\\")
PREFIXES = ("int:", "float:", "bool:", "nonetype:")


def _special_str(s):
    return isinstance(s, str) and (any(c in SEPS for c in s) or s.lower().startswith(PREFIXES))


def _classify_value(v):
    if isinstance(v, (list, dict)):
        return "nested"
    if isinstance(v, str):
        low = v.lower()
        if low.startswith(PREFIXES):
            return "str-type-prefix"
        if "%" in v:
            return "str-percent"
        if any(c in SEPS for c in v):
            return "str-separator"
        if any(ord(c) > 127 for c in v):
            return "str-unicode"
        return "str-plain"
    if isinstance(v, bool):
        return "bool"
    if isinstance(v, int):
        return "int"
    if isinstance(v, float):
        return "float-nonfinite" if (math.isnan(v) or math.isinf(v)) else "float"
    return "none"


def check_roundtrip(case):
    from mpf.core.bcp.bcp_socket_client import decode_command_string, encode_command_string
    cmd, kwargs = case["cmd"], case["kwargs"]
    classes = sorted(set(_classify_value(v) for v in kwargs.values())) or ["no-params"]
    jsonpath = any(isinstance(v, (list, dict)) for v in kwargs.values())
    nontrivial = jsonpath or any(_special_str(v) for v in kwargs.values())
    vio = []
    try:
        line = encode_command_string(cmd, **kwargs)
    except Exception as e:   # pylint: disable=broad-except
        return Result([violation("encode-raises:" + type(e).__name__, "encode_command_string raised %r" % (e,))],
                      classes, nontrivial)
    if not isinstance(line, str) or "\n" in line or "\r" in line:
        vio.append(violation("not-single-line", "encoding is not a single line: %r" % (line,)))
    try:
        dcmd, dkw = decode_command_string(line)
    except Exception as e:   # pylint: disable=broad-except
        vio.append(violation("decode-raises:" + type(e).__name__ + (":json" if jsonpath else ""),
                             "decode_command_string(%r) raised %r" % (line, e)))
        return Result(vio, classes, nontrivial)
    if dcmd != cmd:
        vio.append(violation("command-changed", "command %r decoded as %r (line %r)" % (cmd, dcmd, line)))
    if sorted(dkw.keys()) != sorted(kwargs.keys()):
        vio.append(violation("param-names-changed", "parameter names %r decoded as %r (line %r)" % (
            sorted(kwargs), sorted(dkw), line)))
    else:
        for k in sorted(kwargs):
            if not same(kwargs[k], dkw[k]):
                vio.append(violation("value-changed:%s%s" % (_classify_value(kwargs[k]), ":json" if jsonpath else ""),
                                     "parameter %s=%r decoded as %r (line %r)" % (k, kwargs[k], dkw[k], line)))
    return Result(vio or None, classes, nontrivial)


# ------------------------------------------------------------------------------------------------
# stream reassembly
msg = st.fixed_dictionaries({"cmd": ident, "kwargs": kwargs_strategy(),
                             "payload": st.one_of(st.none(), st.none(), st.binary(min_size=0, max_size=40),
                                                  st.sampled_from([b"\n", b"a\nb?c=d\n", b"&bytes=2\nxx"]))})
# (a mapped tuple, not fixed_dictionaries: Hypothesis cannot replay fixed_dictionaries with four or more keys from a raw
# byte buffer, which would make the coverage-guided phase reject every input)
case_stream = st.tuples(
    st.lists(msg, min_size=1, max_size=8),
    # cut points as fractions of the stream length; [] means whole delivery is compared with single bytes
    st.lists(st.integers(0, 10 ** 6), max_size=12),
    st.booleans(), st.booleans(),
).map(lambda t: {"msgs": t[0], "cuts": t[1], "single_bytes": t[2], "debug_log": t[3]})


def _deliver(stream, chunks, cls):
    """Feed chunks into an asyncio StreamReader read by the client's read_message; return messages in order."""
    loop = asyncio.new_event_loop()
    try:
        reader = asyncio.StreamReader(loop=loop)
        client = cls(None, reader)
        got = []
        err = []

        async def consume():
            try:
                while True:
                    got.append(await client.read_message())
            except BrokenPipeError:
                pass
            except Exception as e:   # pylint: disable=broad-except
                err.append(e)

        task = loop.create_task(consume())

        def spin():
            for _ in range(3):
                loop.call_soon(loop.stop)
                loop.run_forever()
        spin()
        for c in chunks:
            reader.feed_data(c)
            spin()
        reader.feed_eof()
        spin()
        if not task.done():
            task.cancel()
            spin()
            err.append(RuntimeError("reader task still waiting after EOF"))
        return got, err
    finally:
        loop.close()


def check_stream(case):
    from mpf.core.bcp.bcp_socket_client import (AsyncioBcpClientSocket, decode_command_string,
                                                encode_command_string)
    lines = []
    spans = []      # (start, end_of_line, end_of_payload)
    stream = b""
    expected = []
    excluded = None
    for m in case["msgs"]:
        if m["cmd"] in ("hello", "goodbye"):
            m = dict(m, cmd=m["cmd"] + "_x")     # consumed by the client itself, never handed on
        try:
            line = encode_command_string(m["cmd"], **m["kwargs"])
            exp = decode_command_string(line)
        except Exception:   # pylint: disable=broad-except
            return Result(None, ["encode-or-decode-raises(roundtrip's business)"], False, excluded="codec raises")
        if "\n" in line:
            return Result(None, ["multi-line(roundtrip's business)"], False, excluded="multi-line encoding")
        raw = line.encode()
        if b"&bytes=" in raw:
            # a raw marker inside an encoded line: only possible on the JSON path; reassembly then cannot tell
            # it from a real payload marker.  This *is* a reassembly question, so it stays in the domain.
            pass
        start = len(stream)
        if m["payload"] is not None:
            raw += b"&bytes=%d" % len(m["payload"])
        stream += raw + b"\n"
        eol = len(stream)
        kw = dict(exp[1])
        if m["payload"] is not None:
            stream += m["payload"]
            if m["payload"]:
                kw["rawbytes"] = m["payload"]
        spans.append((start, eol, len(stream)))
        expected.append((exp[0], kw))
        lines.append(line)
    n = len(stream)
    if case["single_bytes"]:
        chunks = [stream[i:i + 1] for i in range(n)]
        cutpos = set(range(1, n))
    else:
        cutpos = sorted(set(c % (n + 1) for c in case["cuts"]) - {0, n})
        chunks = [stream[a:b] for a, b in zip([0] + cutpos, cutpos + [n])]
        cutpos = set(cutpos)
    inside = any(any(s < c < e - 1 or e < c < p for c in cutpos) for s, e, p in spans)
    classes = ["single-bytes" if case["single_bytes"] else ("split" if cutpos else "whole")]
    if any(m["payload"] is not None for m in case["msgs"]):
        classes.append("payload")
    if any(e < c < p for s, e, p in spans for c in cutpos):
        classes.append("split-inside-payload")
    vio = []
    for label, cls in (("", AsyncioBcpClientSocket), (":mpf-client", _mpf_client_factory())):
        _compare(vio, label, cls, stream, chunks, expected)
    if not vio:
        _dispatch(vio, classes, expected, bool(case.get("debug_log")))
    return Result(vio or None, classes, inside and len(stream) > 0)


_IFACE = []


def _dispatch(vio, classes, expected, debug):
    """The reassembled messages are handed to MPF's BcpInterface.process_bcp_message, with and without its debug logging:
    every registered command handler must receive the same parameters (payload included), in the order sent."""
    _mpf_client_factory()
    rig = _RIG[0]
    if not _IFACE:
        from mpf.core.bcp.bcp_interface import BcpInterface
        rig.machine.config["bcp"] = {"connections": {}, "servers": {}, "debug": False}
        _IFACE.append(BcpInterface(rig.machine))
    iface = _IFACE[0]
    got = []
    saved = dict(iface.bcp_receive_commands)

    def mk(cmd):
        async def handler(client, **kwargs):
            del client
            got.append((cmd, kwargs))
        return handler
    try:
        for cmd, _ in expected:
            iface.bcp_receive_commands[cmd] = mk(cmd)
        iface._debug_to_console = debug     # pylint: disable=protected-access
        if debug:
            classes.append("dispatch with debug logging")

        async def run():
            for cmd, kw in expected:
                await iface.process_bcp_message(cmd, dict(kw), None)
        rig.loop.run_until_complete(run())
    except Exception as e:   # pylint: disable=broad-except
        vio.append(violation("dispatch-raises:" + type(e).__name__, "process_bcp_message raised %r for %r" % (e, expected)))
        return
    finally:
        iface._debug_to_console = False     # pylint: disable=protected-access
        iface.bcp_receive_commands.clear()
        iface.bcp_receive_commands.update(saved)

    def norm(lst):
        return [(c, sorted((k, repr(v)) for k, v in kw.items())) for c, kw in lst]
    if norm(got) != norm(expected):
        vio.append(violation("dispatch-differs" + (":debug-logging" if debug else ""), "handlers received %r, the messages sent "
                             "were %r" % (got, expected)))


_RIG = []


def _mpf_client_factory():
    """BCPClientSocket (the class MPF itself uses) needs a machine; one null machine per worker process."""
    from mpf.core.bcp.bcp_socket_client import BCPClientSocket
    if not _RIG:
        from vlib.rig import Rig
        _RIG.append(Rig("null").start())

    def make(sender, receiver):
        c = BCPClientSocket(_RIG[0].machine, "verif", None)
        c._sender = sender          # pylint: disable=protected-access
        c._receiver = receiver      # pylint: disable=protected-access
        return c
    return make


def _compare(vio, label, cls, stream, chunks, expected):
    whole, werr = _deliver(stream, [stream], cls)
    part, perr = _deliver(stream, chunks, cls)

    def norm(lst):
        return [(c, sorted((k, repr(v)) for k, v in kw.items())) for c, kw in lst]
    if werr:
        vio.append(violation("reader-raises:" + type(werr[0]).__name__ + label, "read_message raised %r on stream %r" % (
            werr[0], stream)))
    elif perr:
        vio.append(violation("reader-raises-when-split:" + type(perr[0]).__name__ + label,
                             "read_message raised %r when stream %r was split into %r" % (perr[0], stream, chunks)))
    else:
        if norm(whole) != norm(part):
            vio.append(violation("split-dependent" + label, "messages depend on chunking: whole=%r split=%r chunks=%r" % (
                whole, part, chunks)))
        if norm(whole) != norm(expected):
            vio.append(violation("reassembly-wrong" + label, "stream %r reassembled as %r, expected %r" % (
                stream, whole, expected)))


FUZZ_MODULES = ["mpf.core.bcp.bcp_socket_client", "mpf.core.bcp.bcp_interface", "mpf.core.utility_functions"]

SUBCHECKS = [
    SubCheck("roundtrip", lambda: case_rt, check_roundtrip, quick=12000, thorough=600000, procs_quick=8,
             fuzz={"quick": 6000, "thorough": 400000, "modules": FUZZ_MODULES}),
    SubCheck("stream", lambda: case_stream, check_stream, quick=3000, thorough=120000, procs_quick=4,
             fuzz={"quick": 3000, "thorough": 200000, "modules": FUZZ_MODULES}),
]
