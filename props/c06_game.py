"""C06 — Game lifecycle: turns, balls and lifecycle events are well-formed."""
import functools
from unittest.mock import MagicMock

from hypothesis import strategies as st

from vlib.engine import Result, SubCheck, violation
from vlib.rig import Rig

PROPERTY = "C06"
LEVEL = "exploration"
RULE = ("A case fixes balls_per_game (1-4) and max_players (1-4) and a history of start presses (game start / player "
        "add), drains (through the ball_drain relay, partly claimed by a generated ball-save handler), added balls in "
        "play, extra-ball awards, end_ball / end_game / slam-tilt requests and time gaps, with waiting handlers of "
        "generated delays on every lifecycle queue event so that requests land inside them; several games per case. "
        "Non-trivial = >= 2 players, or an extra ball, or a request issued while a lifecycle queue event is held, or "
        "a second game. Distinct = distinct case hash.")
ASSUMPTIONS = [
    "ball hardware is faked the way the repo's MpfFakeGameTestCase does (playfield.add_ball stub, drains posted as the "
    "ball_drain relay event); the physical side is C04/C05's business",
    "a slam tilt is issued the way the tilt mode issues it (slam_tilt event, game.slam_tilted, game.end_ball())",
    "after an end_game / slam-tilt request pending extra balls may or may not be played; the game must end",
    "bounded liveness: every generated wait is <= 80 ms; the case ends with 3 s of quiet",
]
QUEUE_EVENTS = ["game_starting", "player_adding", "player_turn_starting", "ball_starting", "ball_ending",
                "player_turn_ending", "game_ending"]
LIFECYCLE = ["game_will_start", "game_starting", "game_started",
             "player_turn_will_start", "player_turn_starting", "player_turn_started",
             "ball_will_start", "ball_starting", "ball_started", "ball_will_end", "ball_ending", "ball_ended",
             "player_turn_will_end", "player_turn_ending", "player_turn_ended",
             "game_will_end", "game_ending", "game_ended", "player_added"]

op = st.one_of(
    st.just(["start"]), st.just(["start"]), st.just(["start"]),
    st.tuples(st.just("drain"), st.integers(1, 2)).map(list),
    st.tuples(st.just("drain"), st.integers(1, 2)).map(list),
    st.tuples(st.just("drain"), st.integers(1, 2)).map(list),
    st.tuples(st.just("drain"), st.integers(1, 2)).map(list),
    st.tuples(st.just("add_ball"), st.integers(1, 3)).map(list),
    st.just(["extra_ball"]), st.just(["end_ball"]), st.just(["end_game"]), st.just(["slam_tilt"]),
    st.just(["tilt_warn"]), st.just(["tilt_warn"]), st.just(["tilt_sw"]), st.just(["slam_sw"]),
    st.tuples(st.just("advance"), st.sampled_from([0, 1, 10, 40, 100, 500])).map(list),
    st.tuples(st.just("advance"), st.sampled_from([0, 1, 10, 40, 100, 500])).map(list),
)
# compound operation: something that ends a ball, a short gap, then a request - lands requests in the turn transitions
GAP_PHASES = ("ball_will_end", "ball_ending", "player_turn_will_end", "player_turn_ending", "player_turn_ended",
              "player_turn_will_start", "player_turn_starting")
simple_req = st.sampled_from([["start"], ["end_game"], ["extra_ball"], ["end_ball"], ["add_ball", 1], ["slam_tilt"]])
then_op = st.tuples(st.just("then"), st.sampled_from([["drain", 1], ["drain", 2], ["end_ball"]]),
                    st.sampled_from([0, 1, 2, 5, 10, 20, 40]), simple_req).map(list)
op = st.one_of(op, op, op, then_op)
case_strategy = st.fixed_dictionaries({
    "balls_per_game": st.integers(1, 4),
    # balls_per_game is a template (machine.c06_bpg); these are its values for the games after the first one
    "bpg_next": st.lists(st.integers(1, 4), max_size=3),
    "max_players": st.integers(1, 4),
    "waits": st.dictionaries(st.sampled_from(QUEUE_EVENTS), st.sampled_from([0, 5, 30, 80]), max_size=4),
    "save_every": st.sampled_from([0, 0, 2, 3]),      # the ball-save handler claims every n-th drained ball
    "ops": st.lists(op, min_size=4, max_size=60),
})


class Acceptor:
    """Checks the recorded lifecycle event sequence against the statement's grammar, with numbering."""

    def __init__(self, bpg, v):
        self.bpg = bpg
        self.v = v
        self.phase = "idle"
        self.players = 0
        self.turns = {}         # player -> turns started
        self.cur = None
        self.prev_player = None
        self.extra_avail = {}
        self.end_requested = False
        self.trace = []
        self.games = 0
        self.ball_end_allowed = False
        self.ball_end_required = False      # an end request / zero balls in play since this ball's ball_will_start
        self.in_ball = False

    NEXT = {
        "idle": {"game_will_start"},
        "game_will_start": {"game_starting"},
        "game_starting": {"game_started"},
        "game_started": {"player_turn_will_start", "game_will_end"},
        "player_turn_will_start": {"player_turn_starting"},
        "player_turn_starting": {"player_turn_started"},
        "player_turn_started": {"ball_will_start"},
        "ball_will_start": {"ball_starting"},
        "ball_starting": {"ball_started"},
        "ball_started": {"ball_will_end"},
        "ball_will_end": {"ball_ending"},
        "ball_ending": {"ball_ended"},
        "ball_ended": {"ball_will_start", "player_turn_will_end"},
        "player_turn_will_end": {"player_turn_ending"},
        "player_turn_ending": {"player_turn_ended"},
        "player_turn_ended": {"player_turn_will_start", "game_will_end"},
        "game_will_end": {"game_ending"},
        "game_ending": {"game_ended"},
        "game_ended": {"game_will_start"},
    }

    def feed(self, name, kw):
        self.trace.append((name, kw.get("number", kw.get("player")), kw.get("ball")))
        if name == "player_added":
            self.players += 1
            num = kw.get("num")
            if num != self.players:
                self.v("player-number", "player_added num=%r but it is player #%d of this game" % (num, self.players))
            return
        phase = "idle" if self.phase == "game_ended" and name == "game_will_start" else self.phase
        allowed = self.NEXT["idle" if phase == "idle" else phase]
        if name not in allowed:
            self.v("lifecycle-order:%s-after-%s" % (name, self.phase), "%s posted after %s; allowed next: %s; trace tail %r" % (
                name, self.phase, sorted(allowed), self.trace[-10:]))
        self.phase = name
        if name == "game_will_start":
            self.bpg = getattr(self, "next_bpg", self.bpg)      # the template is evaluated when the game starts
            self.players = 0
            self.turns = {}
            self.cur = None
            self.prev_player = None
            self.extra_avail = {}
            self.end_requested = False
            self.games += 1
        elif name == "player_turn_will_start":
            p = kw.get("number")
            exp = 1 if self.prev_player is None or self.prev_player >= self.players else self.prev_player + 1
            if p != exp:
                self.v("turn-order", "turn of player %r started, expected player %r (previous %r of %d players); trace tail %r" % (
                    p, exp, self.prev_player, self.players, self.trace[-8:]))
            if self.end_requested and getattr(self, "turn_in_flight", False):
                self.turn_in_flight = False
            elif self.end_requested:
                self.v("turn-after-end-request", "a new player turn (player %r) started although the game had been asked to end" % (p,))
            self.turns[p] = self.turns.get(p, 0) + 1
            self.cur = p
            if self.turns[p] > self.bpg:
                self.v("too-many-balls", "player %r starts turn %d but balls_per_game is %d; trace tail %r" % (
                    p, self.turns[p], self.bpg, self.trace[-8:]))
        elif name in ("ball_will_start", "ball_starting", "ball_started"):
            p, b = kw.get("player"), kw.get("ball")
            if p != self.cur or b != self.turns.get(self.cur):
                self.v("ball-numbering", "%s carries player=%r ball=%r during turn %r of player %r" % (
                    name, p, b, self.turns.get(self.cur), self.cur))
            if name == "ball_will_start":
                if kw.get("is_extra_ball"):
                    if self.extra_avail.get(p, 0) <= 0:
                        self.v("extra-ball-not-awarded", "player %r plays an extra ball that was never awarded" % (p,))
                    self.extra_avail[p] = self.extra_avail.get(p, 0) - 1
                elif self._balls_this_turn > 0:
                    self.v("second-ball-in-turn", "player %r got a second regular ball in one turn" % (p,))
                self._balls_this_turn += 1
            if name == "ball_will_start":
                # a request made from here on concerns this ball; a game asked to end may end every further ball at once
                self.ball_end_allowed = self.end_requested
                self.ball_end_required = False
            if name == "ball_started":
                self.in_ball = True
        elif name == "ball_will_end":
            if not self.ball_end_allowed:
                self.v("ball-ended-without-cause", "ball_will_end posted although balls in play never reached zero and no end was "
                       "requested; trace tail %r" % (self.trace[-8:],))
            self.in_ball = False
        elif name == "player_turn_will_end":
            if self.extra_avail.get(self.cur, 0) > 0 and not self.end_requested:
                self.v("extra-ball-not-played", "player %r's turn ends with %d awarded extra ball(s) unplayed" % (
                    self.cur, self.extra_avail[self.cur]))
            self.prev_player = self.cur
        elif name == "game_will_end":
            last_turn_done = self.prev_player is not None and self.prev_player == self.players and \
                self.turns.get(self.prev_player, 0) >= self.bpg
            if not (last_turn_done or self.end_requested):
                self.v("game-ended-early", "game_will_end after player %r's turn %r of %d players and %d balls per game, without "
                       "an end request; trace tail %r" % (self.prev_player, self.turns.get(self.prev_player), self.players,
                                                        self.bpg, self.trace[-8:]))
        if name == "player_turn_started":
            self._balls_this_turn = 0
        if name == "player_turn_ended":
            # after the last player's last ball the game must end, not go on
            if self.prev_player == self.players and self.turns.get(self.prev_player, 0) >= self.bpg:
                self.must_end = True

    _balls_this_turn = 0
    must_end = False


_TURN_POSTS = {}      # id(EventManager) -> [number of player_turn_will_start posts] (EventManager has __slots__: the spy sits on the class)


def _install_post_spy():
    from mpf.core.events import EventManager
    if getattr(EventManager._post, "_c06_spy", False):      # pylint: disable=protected-access
        return
    orig = EventManager._post       # pylint: disable=protected-access

    def _post(self, event, ev_type, callback, **kwargs):
        if event == "player_turn_will_start" and id(self) in _TURN_POSTS:
            _TURN_POSTS[id(self)][0] += 1
        return orig(self, event, ev_type, callback, **kwargs)
    _post._c06_spy = True
    EventManager._post = _post      # pylint: disable=protected-access


def check(case):
    vio = []
    classes = set()

    def v(sig, msg):
        if len(vio) < 5:
            vio.append(violation(sig, msg))
    patches = {"game": {"balls_per_game": "machine.c06_bpg", "max_players": case["max_players"]},
               "machine_vars": {"c06_bpg": {"initial_value": case["balls_per_game"], "value_type": "int", "persist": False}}}
    with Rig("game6", patches=patches) as rig:
        m = rig.machine
        ev = m.events
        acc = Acceptor(case["balls_per_game"], v)
        acc.next_bpg = case["balls_per_game"]
        bpg_next = list(case.get("bpg_next") or [])

        def _next_bpg(**kwargs):
            if bpg_next:
                acc.next_bpg = bpg_next.pop(0)
                m.variables.set_machine_var("c06_bpg", acc.next_bpg)
                classes.add("balls_per_game changed between games")
        ev.add_handler("game_ended", _next_bpg, priority=-2000)
        held = [0]
        drained_seen = [0]

        def _add_ball(**kwargs):
            m.playfield.balls += 1
            m.playfield.available_balls += 1
        m.playfield.add_ball = _add_ball
        m.ball_controller.num_balls_known = 3

        def rec(name, **kwargs):
            kw = dict(kwargs)
            for k in ("player",):
                if hasattr(kw.get(k), "number"):
                    kw[k] = kw[k].number
            acc.feed(name, kw)
            g = m.game
            if g is not None:
                bip = g.balls_in_play
                if not 0 <= bip <= m.ball_controller.num_balls_known:
                    v("balls-in-play-range", "balls_in_play is %r at %s (num_balls_known %r)" % (
                        bip, name, m.ball_controller.num_balls_known))
            if name == "ball_will_end":
                # the faked playfield empties when the ball ends (the next ball waits for empty playfields)
                m.playfield.balls = 0
                m.playfield.available_balls = 0
        for name in LIFECYCLE:
            ev.add_handler(name, functools.partial(rec, name), priority=-100)

        def mk_wait(delay):
            def handler(queue, **kwargs):
                if delay == 0:
                    queue.wait()
                    queue.clear()
                    return
                queue.wait()
                held[0] += 1

                def clear():
                    held[0] -= 1
                    queue.clear()
                m.clock.loop.call_later(delay / 1000.0, clear)
            return handler
        for qe, d in case["waits"].items():
            ev.add_handler(qe, mk_wait(d), priority=50)

        def saver(balls, **kwargs):
            """ball save: claims every n-th drained ball (a relay handler in front of the game)."""
            n = case["save_every"]
            keep = 0
            for _ in range(balls):
                drained_seen[0] += 1
                if n and drained_seen[0] % n == 0:
                    keep += 1
            g_ = m.game
            if g_ is not None and g_.balls_in_play - (balls - keep) <= 0:
                ball_must_end()     # this drain takes balls in play to zero: the ball has to end
            return {"balls": balls - keep}
        ev.add_handler("ball_drain", saver, priority=1000)

        def ball_must_end():
            acc.ball_end_allowed = True
            if acc.phase in ("ball_will_start", "ball_starting", "ball_started"):
                acc.ball_end_required = True

        def _tilted(**kwargs):
            # the tilt mode announces a tilt: the ball in progress has to end
            classes.add("tilt")
            ball_must_end()
        ev.add_handler("tilt", _tilted, priority=100000)

        def request_end():
            # a turn whose player_turn_will_start is already queued was decided before this request: the acceptor must not
            # count it as "started after the end request" (handlers see the event later than the game posted it)
            acc.turn_in_flight = any(e[0] == "player_turn_will_start" for e in list(m.events.event_queue)) or \
                turns_posted[0] > turns_seen[0]
            acc.end_requested = True
            ball_must_end()

        # a request made through the end_game event reaches the game when that event is delivered, not when it is posted:
        # a turn the game posted in between (its task ran first) was decided before the request
        turns_posted, turns_seen = [0], [0]
        _TURN_POSTS[id(ev)] = turns_posted
        _install_post_spy()
        ev.add_handler("player_turn_will_start", lambda **kwargs: turns_seen.__setitem__(0, turns_seen[0] + 1), priority=100000)
        ev.add_handler("end_game", lambda **kwargs: request_end() if m.game is not None else None, priority=100000)

        def expand(ops):
            for o in ops:
                if o[0] == "then":
                    classes.add("request-in-turn-transition")
                    yield o[1]
                    yield ["advance", o[2]]
                    yield o[3]
                else:
                    yield o

        for o in expand(case["ops"]):
            if vio:
                break
            k = o[0]
            g = m.game
            if held[0]:
                classes.add("request-while-queue-event-held")
            try:
                if k == "start":
                    m.switch_controller.process_switch("s_start", 1, logical=True)
                    rig.run_ready()
                    m.switch_controller.process_switch("s_start", 0, logical=True)
                    rig.advance(0.002)
                elif k == "drain":
                    if g is not None and g.balls_in_play > 0:
                        before = g.balls_in_play
                        fut = ev.post_relay_async("ball_drain", balls=min(o[1], before))
                        rig.run_ready()
                        rig.run_ready()
                        del fut
                elif k == "add_ball":
                    if g is not None and g.balls_in_play > 0:
                        g.balls_in_play += o[1]
                        rig.run_ready()
                elif k == "extra_ball":
                    # extra balls are awarded by play: while a ball is in progress or ending
                    if g is not None and g.player is not None and not g.ending and acc.phase in (
                            "ball_will_start", "ball_starting", "ball_started", "ball_will_end", "ball_ending"):
                        g.player.extra_balls += 1
                        acc.extra_avail[g.player.number] = acc.extra_avail.get(g.player.number, 0) + 1
                        classes.add("extra-ball")
                elif k == "end_ball":
                    if g is not None and acc.phase in ("ball_will_start", "ball_starting", "ball_started"):
                        ball_must_end()
                        ev.post("end_ball")
                        rig.run_ready()
                    elif g is not None and not g.ending and acc.phase in GAP_PHASES:
                        # a request while no ball is in progress concerns no ball: it must not end the next one
                        # (phases next to the point where the game arms the next ball are left out: the request could
                        # land on either side of it)
                        classes.add("end-request-between-balls")
                        ev.post("end_ball")
                        rig.run_ready()
                elif k == "end_game":
                    if g is not None:
                        ev.post("end_game")     # (the acceptor notes the request when the event is delivered)
                        rig.run_ready()
                elif k == "slam_tilt":
                    # a tilt concerns the ball in progress; before the first ball of a turn it is outside the domain
                    if g is not None and acc.phase in ("ball_will_start", "ball_starting", "ball_started"):
                        request_end()
                        ev.post("slam_tilt")
                        g.slam_tilted = True
                        g.tilted = True
                        g.end_ball()
                        rig.run_ready()
                elif k in ("tilt_warn", "tilt_sw"):
                    # the real tilt mode (2 warnings tilt, 1 s settle time). A tilt concerns the ball in progress.
                    if g is not None and acc.phase in ("ball_will_start", "ball_starting", "ball_started") and not g.ending:
                        m.playfield.balls = 0               # the fake playfield has no drains: nothing to collect
                        m.playfield.available_balls = 0
                        sw = "s_tilt_warn" if k == "tilt_warn" else "s_tilt"
                        m.switch_controller.process_switch(sw, 1, logical=True)
                        rig.run_ready()
                        m.switch_controller.process_switch(sw, 0, logical=True)
                        rig.advance(0.11)           # beyond the tilt mode's multiple_hit_window
                elif k == "slam_sw":
                    # slam tilt through the tilt mode: on a live ball, or while the tilted ball is still ending
                    if g is not None and not g.ending and (
                            acc.phase in ("ball_will_start", "ball_starting", "ball_started") or
                            (g.tilted and acc.phase in ("ball_will_end", "ball_ending"))):
                        if g.tilted:
                            classes.add("slam tilt on a tilted ball")
                        request_end()
                        m.playfield.balls = 0
                        m.playfield.available_balls = 0
                        m.switch_controller.process_switch("s_slam", 1, logical=True)
                        rig.run_ready()
                        m.switch_controller.process_switch("s_slam", 0, logical=True)
                        rig.run_ready()
                elif k == "advance":
                    rig.advance(o[1] / 1000.0)
            except Exception as e:   # pylint: disable=broad-except
                import traceback
                v("exception:" + type(e).__name__, "operation %r raised %r\n%s" % (o, e, traceback.format_exc()[-1000:]))
                break
            g = m.game
            if g is not None and not 0 <= g.balls_in_play <= m.ball_controller.num_balls_known:
                v("balls-in-play-range", "balls_in_play is %r after %r" % (g.balls_in_play, o))
            if acc.players >= 2:
                classes.add(">=2-players")
            if acc.games >= 2:
                classes.add("second-game")
            if rig.exceptions:
                v("loop-exception", "exception reached the loop after %r: %s" % (o, rig.exception_summaries()[:2]))
        if not vio:
            # bounded liveness: let every held queue event clear, then: an ended ball must have produced ball_will_end, a
            # game asked to end must be over
            for _ in range(40):
                rig.advance(0.1)
                if not held[0]:
                    break
            rig.advance(2.5)        # longer than the tilt mode's settle time (1 s)
            if acc.in_ball and acc.ball_end_required:
                v("ball-did-not-end", "balls in play reached zero or an end was requested, but ball_will_end was not posted "
                  "within 1 s; trace tail %r" % (acc.trace[-8:],))
            # finish a running game (pending extra balls are still played and have to be drained) and check that a new
            # one can start
            for _ in range(12):
                if m.game is None or vio:
                    break
                request_end()
                if m.game.balls_in_play > 0:
                    ev.post_relay("ball_drain", balls=m.game.balls_in_play)
                m.game.end_game()
                for _ in range(40):
                    rig.advance(0.1)
                    if not held[0]:
                        break
                rig.advance(0.5)
            if not vio:
                if m.game is not None or acc.phase not in ("game_ended", "idle"):
                    v("game-did-not-end", "after game end request: machine.game=%r, last lifecycle event %s" % (m.game, acc.phase))
                else:
                    games = acc.games
                    m.switch_controller.process_switch("s_start", 1, logical=True)
                    rig.run_ready()
                    m.switch_controller.process_switch("s_start", 0, logical=True)
                    for _ in range(20):
                        rig.advance(0.1)
                        if not held[0]:
                            break
                    rig.advance(0.5)
                    if acc.games != games + 1 or m.game is None:
                        v("cannot-start-new-game", "after %d game(s) ended a start request did not start a new game "
                          "(machine.game=%r, last event %s)" % (games, m.game, acc.phase))
            if rig.exceptions and not vio:
                v("loop-exception", "exception reached the loop: %s" % rig.exception_summaries()[:2])
    nontrivial = bool(classes & {">=2-players", "extra-ball", "request-while-queue-event-held", "second-game",
                                 "request-in-turn-transition"})
    return Result(vio or None, sorted(classes) or ["plain"], nontrivial)


SUBCHECKS = [
    SubCheck("lifecycle", lambda: case_strategy, check, quick=5000, thorough=80000, procs_quick=8),
]
