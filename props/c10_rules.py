"""C10 — Hardware switch-to-coil rules match the enabled devices exactly."""
from hypothesis import strategies as st

from vlib.engine import Result, SubCheck, violation
from vlib.rig import Rig

PROPERTY = "C10"
LEVEL = "exploration"
RULE = ("A case is a history over four flippers (dual wound, single coil with EOS, dual wound with EOS and software "
        "EOS repulse, plain single coil), three autofire coils (plain, with timeout protection, reversed switch) and a "
        "kickback: explicit enable/disable calls and events, sw_flip/sw_release events, bursts of switch hits, ball "
        "search runs, game start, drains, end, tilt, service entry/exit and time gaps. Non-trivial = a device enabled "
        "or disabled at least twice, or a software flip pending when a disable arrives, or timeout protection tripping, "
        "or a lifecycle transition with flipped flippers. Distinct = distinct case hash.")
ASSUMPTIONS = [
    "the rule table is the virtual platform's (one entry per switch/coil pair, it raises on overwriting an entry)",
    "explicit enable requests made by the case outside a ball are honoured as requested; the lifecycle clause is "
    "asserted for devices left to their default enable/disable events (sub-check lifecycle makes no explicit enables)",
    "a tilt is issued the way the tilt mode issues it (tilt event, game.tilted, game.end_ball()); service entry is the "
    "service_mode_entered event",
]
FLIPPERS = ["f1", "f2", "f3", "f4", "f7", "f8"]     # f7/f8 have no cabinet button (event driven only)
PAIR = ["f5", "f6"]        # share a button and a coil, handed over by one event (never both enabled)
AUTOFIRES = ["af1", "af2", "af3"]
DEVICES = FLIPPERS + AUTOFIRES + ["kb1"]
AF_SW = {"af1": "s_af1", "af2": "s_af2", "af3": "s_af3", "kb1": "s_kb"}


def expected_rules(m):
    """Rule table entries of the devices whose enabled flag is set, from their wiring."""
    exp = {}

    def key(sw, coil):
        return (sw.hw_switch.number, coil.hw_driver.number)
    for n in FLIPPERS + PAIR:
        f = m.flippers[n]
        if not f._enabled:       # pylint: disable=protected-access
            continue
        c = f.config
        if not c["activation_switch"]:
            continue
        if c["use_eos"]:
            kind = "pulse_on_hit_and_release_and_disable" if c["hold_coil"] else "pulse_on_hit_and_enable_and_release_and_disable"
            exp[key(c["activation_switch"], c["main_coil"])] = kind
            exp[key(c["eos_switch"], c["main_coil"])] = kind
        elif c["hold_coil"]:
            exp[key(c["activation_switch"], c["main_coil"])] = "pulse_on_hit_and_release"
        else:
            exp[key(c["activation_switch"], c["main_coil"])] = "pulse_on_hit_and_enable_and_release"
        if c["hold_coil"]:
            exp[key(c["activation_switch"], c["hold_coil"])] = "pulse_on_hit_and_enable_and_release"
    for n in AUTOFIRES:
        a = m.autofire_coils[n]
        if a._enabled:       # pylint: disable=protected-access
            exp[key(a.config["switch"], a.config["coil"])] = "pulse_on_hit"
    k = m.kickbacks["kb1"]
    if k._enabled:           # pylint: disable=protected-access
        exp[key(k.config["switch"], k.config["coil"])] = "pulse_on_hit"
    return exp


FLIPPER_COILS = ("c_main1", "c_hold1", "c_main2", "c_main3", "c_hold3", "c_main4", "c_main5", "c_main7", "c_hold7", "c_main8")


def actual_rules(m):
    return {(k[0].number, k[1].number): v for k, v in m.default_platform.rules.items()}


def dev(m, n):
    if n in FLIPPERS or n in PAIR:
        return m.flippers[n]
    if n in AUTOFIRES:
        return m.autofire_coils[n]
    return m.kickbacks[n]


dev_i = st.sampled_from(DEVICES)
common = [
    st.tuples(st.just("novice"), st.booleans()).map(list),
    st.tuples(st.just("novice"), st.booleans()).map(list),
    st.tuples(st.just("flip"), st.sampled_from(FLIPPERS)).map(list),
    st.tuples(st.just("release"), st.sampled_from(FLIPPERS)).map(list),
    st.tuples(st.just("hits"), st.sampled_from(list(AF_SW)), st.integers(1, 5), st.sampled_from([0, 10, 50, 100])).map(list),
    st.tuples(st.just("button"), st.sampled_from(["s_flip1", "s_flip2", "s_eos2", "s_flip3", "s_eos3", "s_flip4"]),
              st.integers(0, 1)).map(list),
    st.tuples(st.just("ball_search"), st.sampled_from([150, 450, 1200])).map(list),
    st.tuples(st.just("advance"), st.sampled_from([0, 10, 100, 250, 500, 600, 1500])).map(list),
    st.tuples(st.just("advance"), st.sampled_from([0, 10, 100, 250, 500, 600, 1500])).map(list),
]
explicit = [
    st.tuples(st.just("enable"), dev_i, st.sampled_from(["call", "event"])).map(list),
    st.tuples(st.just("enable"), dev_i, st.sampled_from(["call", "event"])).map(list),
    st.tuples(st.just("disable"), dev_i, st.sampled_from(["call", "event"])).map(list),
    st.tuples(st.just("disable"), dev_i, st.sampled_from(["call", "event"])).map(list),
]
game_ops = [st.just(["start"]), st.just(["start"]), st.just(["drain"]), st.just(["drain"]), st.just(["end_game"]),
            st.just(["tilt"]), st.just(["service_enter"]), st.just(["service_exit"]), st.just(["kb_on"])]
flips = [st.tuples(st.just("flip"), st.sampled_from(FLIPPERS)).map(list)] * 3
burst = [st.tuples(st.just("hits"), st.just("af2"), st.integers(3, 5), st.sampled_from([0, 0, 10, 50])).map(list)] * 2
# requests arriving while the timeout protection has paused af2 (its delayed re-enable is pending for 500 ms)
paused = [st.tuples(st.just("paused"), st.lists(st.sampled_from([["enable", "af2", "call"], ["enable", "af2", "event"],
                                                               ["disable", "af2", "call"], ["disable", "af2", "event"],
                                                               ["advance", 100], ["advance", 250]]),
                                               min_size=1, max_size=4)).map(list)] * 2
def _expand(ops):
    out = []
    for o in ops:
        if o[0] == "paused":
            out += [["enable", "af2", "call"], ["hits", "af2", 4, 0]] + o[1] + [["advance", 600]]
        else:
            out.append(o)
    return out


case_rules = st.fixed_dictionaries({"ops": st.lists(st.one_of(common + explicit + flips + burst + paused), min_size=3,
                                                    max_size=50).map(_expand)})
# scenario: a flipper with EOS is held up (button pressed, EOS closed) while the ball ends / the machine tilts / service
# mode is entered / the game ends, and the EOS switch opens afterwards
held = [st.tuples(st.just("held_through"), st.sampled_from([2, 3]),
                  st.sampled_from(["end_game", "end_game", "tilt", "service_enter", "drain"])).map(list)] * 3


def _expand_life(ops):
    out = [["start"]]
    for o in ops:
        if o[0] == "held_through":
            n = o[1]
            out += [["start"], ["advance", 500], ["button", "s_flip%d" % n, 1], ["advance", 100], ["button", "s_eos%d" % n, 1],
                    ["advance", 100], [o[2]], ["advance", 100], ["button", "s_eos%d" % n, 0], ["advance", 100],
                    ["button", "s_flip%d" % n, 0], ["advance", 100]]
            if o[2] == "service_enter":
                out.append(["service_exit"])
        else:
            out.append(o)
    return out


case_life = st.fixed_dictionaries({"ops": st.lists(st.one_of(common + game_ops + game_ops + flips + burst + held), min_size=3,
                                                   max_size=50).map(_expand_life)})


def run(case, lifecycle):
    vio = []
    classes = set()
    counts = {}

    def v(sig, msg):
        if len(vio) < 5:
            vio.append(violation(sig, msg))
    patches = {"flippers": {}, "autofire_coils": {}}
    if not lifecycle:
        # explicit mode: devices only react to the case's own enable/disable requests
        for n in FLIPPERS:
            patches["flippers"][n] = {"enable_events": "en_" + n, "disable_events": "dis_" + n}
        for n in AUTOFIRES:
            patches["autofire_coils"][n] = {"enable_events": "en_" + n, "disable_events": "dis_" + n}
        patches["kickbacks"] = {"kb1": {"enable_events": "en_kb1", "disable_events": "dis_kb1"}}
    with Rig("rules10", base="fakegame", patches=patches) as rig:
        m = rig.machine
        ev = m.events
        def _add_ball(**kwargs):
            m.playfield.balls += 1
            m.playfield.available_balls += 1
        m.playfield.add_ball = _add_ball
        m.ball_controller.num_balls_known = 3
        phase = {"ball": False, "service": False}
        ev.add_handler("ball_started", lambda **kwargs: phase.__setitem__("ball", True), priority=-1000)
        ev.add_handler("ball_will_end", lambda **kwargs: phase.__setitem__("ball", False), priority=-1000)
        wanted = {}
        searching = [False]
        if lifecycle:
            # cabinet buttons cannot fire coils outside a ball: every pulse/enable reaching a flipper or autofire coil
            # driver while no ball is in play (and no ball search runs) is a violation
            for cn in FLIPPER_COILS + ("c_af1", "c_af2", "c_af3"):
                hw = m.coils[cn].hw_driver
                for call in ("pulse", "enable"):
                    orig = getattr(hw, call)

                    def spy(*a, _orig=orig, _cn=cn, _call=call):
                        quiet = m.game is None or not phase["ball"] or phase["service"]
                        if quiet and not searching[0]:
                            v("coil-fired-outside-ball", "%s.%s%r reached the platform driver while no ball was in play "
                              "(game=%r, service=%r)" % (_cn, _call, a, m.game is not None, phase["service"]))
                        return _orig(*a)
                    setattr(hw, call, spy)

        def invariant(where):
            if lifecycle and not searching[0] and (m.game is None or not phase["ball"] or phase["service"]):
                # no ball in play: no flipper coil may still be energised (a software flip that was never released)
                on = [cn for cn in FLIPPER_COILS if getattr(m.coils[cn].hw_driver, "state", None) == "enabled"]
                if on:
                    v("coil-left-energised-outside-ball", "%s: no ball is in play (game=%r, service=%r) but flipper coils %r "
                      "are still enabled (software-flipped: %r)" % (
                          where, m.game is not None, phase["service"], on,
                          [n for n in FLIPPERS if m.flippers[n]._sw_flipped]))       # pylint: disable=protected-access
            exp = expected_rules(m)
            act = actual_rules(m)
            if exp != act:
                extra = {k: act[k] for k in act if k not in exp}
                missing = {k: exp[k] for k in exp if k not in act}
                wrong = {k: (exp[k], act[k]) for k in exp if k in act and exp[k] != act[k]}
                kind = "rule-left-installed" if extra else ("rule-missing" if missing else "rule-wrong-type")
                v(kind, "%s: installed rules differ from those of the enabled devices: extra (switch,coil) %r, missing %r, "
                  "wrong type %r; enabled: %r" % (where, extra, missing, wrong,
                                                  [n for n in DEVICES if dev(m, n)._enabled]))   # pylint: disable=protected-access
            for n, want in list(wanted.items()):
                got = bool(dev(m, n)._enabled)      # pylint: disable=protected-access
                if got != want:
                    v("enabled-flag:%s" % ("on" if got else "off"), "%s: device %s enabled=%r after it was last asked to be %r" % (
                        where, n, got, want))
                    wanted.pop(n)
            if lifecycle:
                quiet = m.game is None or not phase["ball"] or phase["service"]
                if quiet:
                    fl = [n for n in FLIPPERS + PAIR + AUTOFIRES if dev(m, n)._enabled]     # pylint: disable=protected-access
                    rules = {k: val for k, val in act.items() if k[1] != m.coils["c_kb"].hw_driver.number}
                    if fl or rules:
                        v("rules-outside-ball", "%s: no ball in play (game=%r, service=%r) but devices %r are enabled / rules %r "
                          "installed" % (where, m.game is not None, phase["service"], fl, rules))
                    hot = [c for c in ("c_main1", "c_hold1", "c_main2", "c_main3", "c_hold3", "c_main4", "c_main5")
                           if getattr(m.coils[c].hw_driver, "state", None) == "enabled"]
                    if hot:
                        v("flipper-coil-energised", "%s: no ball in play but flipper coil(s) %r are still enabled" % (where, hot))

        def tap(sw):
            m.switch_controller.process_switch(sw, 1, logical=True)
            rig.run_ready()
            m.switch_controller.process_switch(sw, 0, logical=True)
            rig.run_ready()

        for o in case["ops"]:
            if vio:
                break
            k = o[0]
            try:
                if k == "enable":
                    d = dev(m, o[1])
                    counts[o[1]] = counts.get(o[1], 0) + 1
                    if o[2] == "call":
                        d.enable()
                    else:
                        ev.post("en_" + o[1])
                    rig.run_ready()
                    wanted[o[1]] = True
                elif k == "disable":
                    d = dev(m, o[1])
                    counts[o[1]] = counts.get(o[1], 0) + 1
                    if o[1] in FLIPPERS and d._sw_flipped:      # pylint: disable=protected-access
                        classes.add("disable-while-sw-flipped")
                    if o[2] == "call":
                        d.disable()
                    else:
                        ev.post("dis_" + o[1])
                    rig.run_ready()
                    wanted[o[1]] = False
                elif k == "novice":
                    # (in the lifecycle sub-check the hand-over is only requested while a ball is in play: an enable
                    # requested outside a ball is the case's own doing, not a leftover)
                    if not lifecycle or (m.game is not None and phase["ball"] and not phase["service"]):
                        ev.post("novice_on" if o[1] else "novice_off")
                        rig.run_ready()
                        classes.add("hand-over between two flippers on one button")
                        wanted["f5"], wanted["f6"] = bool(o[1]), not o[1]
                elif k == "flip":
                    ev.post("flip_" + o[1])
                    rig.run_ready()
                elif k == "release":
                    ev.post("release_" + o[1])
                    rig.run_ready()
                elif k == "hits":
                    for _ in range(o[2]):
                        if o[1] == "af3":
                            m.switch_controller.process_switch(AF_SW[o[1]], 0, logical=True)
                            rig.run_ready()
                            m.switch_controller.process_switch(AF_SW[o[1]], 1, logical=True)
                            rig.run_ready()
                        else:
                            tap(AF_SW[o[1]])
                        rig.advance(o[3] / 1000.0)
                    a = dev(m, "af2")
                    if o[1] == "af2" and a.delay.check("_timeout_enable_delay"):
                        classes.add("timeout-protection-tripped")
                        wanted.pop("af2", None)     # protection pauses the device on purpose
                elif k == "button":
                    m.switch_controller.process_switch(o[1], o[2], logical=True)
                    rig.run_ready()
                elif k == "ball_search":
                    bs = m.playfield.ball_search
                    searching[0] = True
                    bs.enable()
                    bs.start()
                    rig.advance(o[1] / 1000.0)
                    bs.stop()
                    bs.disable()
                    rig.advance(0.25)       # hold times of the searched flippers (<= 200 ms) run out
                    searching[0] = False
                    classes.add("ball-search")
                elif k == "advance":
                    rig.advance(o[1] / 1000.0)
                    if "af2" not in wanted and not dev(m, "af2").delay.check("_timeout_enable_delay"):
                        pass
                elif k == "start":
                    tap("s_start")
                    rig.advance(0.3)
                elif k == "drain":
                    if m.game is not None and m.game.balls_in_play > 0:
                        if any(m.flippers[n]._sw_flipped for n in FLIPPERS):     # pylint: disable=protected-access
                            classes.add("lifecycle-transition-while-flipped")
                        ev.post_relay("ball_drain", balls=m.game.balls_in_play)
                        m.playfield.balls = 0
                        m.playfield.available_balls = 0
                        rig.advance(0.6)
                elif k == "end_game":
                    if m.game is not None:
                        if any(m.flippers[n]._sw_flipped for n in FLIPPERS):     # pylint: disable=protected-access
                            classes.add("lifecycle-transition-while-flipped")
                        m.game.end_game()
                        m.playfield.balls = 0
                        m.playfield.available_balls = 0
                        rig.advance(0.6)
                elif k == "tilt":
                    if m.game is not None and phase["ball"]:
                        ev.post("tilt")
                        m.game.tilted = True
                        m.game.end_ball()
                        m.playfield.balls = 0
                        m.playfield.available_balls = 0
                        rig.advance(0.6)
                elif k == "service_enter":
                    phase["service"] = True
                    ev.post("service_mode_entered")
                    rig.run_ready()
                elif k == "service_exit":
                    phase["service"] = False
                    ev.post("service_mode_exited")
                    rig.run_ready()
                elif k == "kb_on":
                    ev.post("kb_on")
                    rig.run_ready()
            except Exception as e:   # pylint: disable=broad-except
                import traceback
                v("exception:" + type(e).__name__, "operation %r raised %r\n%s" % (o, e, traceback.format_exc()[-900:]))
                break
            if rig.exceptions:
                v("loop-exception", "exception reached the loop after %r: %s" % (o, rig.exception_summaries()[:2]))
            if lifecycle and k in ("start", "drain", "end_game", "tilt", "service_enter", "service_exit"):
                wanted.pop("f5", None)
                wanted.pop("f6", None)
            invariant("after %r" % (o,))
        if not vio:
            rig.advance(2.0)
            invariant("at end (2 s later)")
    if any(c >= 2 for c in counts.values()):
        classes.add("repeated-enable/disable")
    nontrivial = bool(classes & {"repeated-enable/disable", "disable-while-sw-flipped", "timeout-protection-tripped",
                                 "lifecycle-transition-while-flipped"})
    return Result(vio or None, sorted(classes) or ["plain"], nontrivial)


SUBCHECKS = [
    SubCheck("rules", lambda: case_rules, lambda c: run(c, False), quick=2000, thorough=30000, procs_quick=4),
    SubCheck("lifecycle", lambda: case_life, lambda c: run(c, True), quick=2000, thorough=30000, procs_quick=4),
]
