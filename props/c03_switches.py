"""C03 — Switch state mirrors the hardware; handlers fire once per real change."""
import functools

from hypothesis import strategies as st

from vlib.engine import Result, SubCheck, violation
from vlib.rig import Rig

PROPERTY = "C03"
LEVEL = "exploration"
RULE = ("A case is a timeline (integer-ms gaps) of switch reports (raw by number, raw by name, logical; NO and NC "
        "switches; duplicates included), handler registrations (hold times 0/1/50/100/1000 ms, duplicates of the same "
        "callback allowed), removals, state queries and advances; a handler's callback may itself remove or add "
        "handlers. Non-trivial = the executed timeline has a change inside a pending hold interval, or a registration "
        "while the switch already is in the handler's state, or a removal with a pending timed entry, or a duplicate "
        "report, or a registry change made from a callback. window: raw reports and advances on a NO and an NC switch "
        "with ignore_window_ms (50/30 ms); non-trivial = a change inside a running window. Distinct = distinct case hash.")
ASSUMPTIONS = [
    "timeline: ignore_window_ms is 0 (switches with a window are the window sub-check's, whose reference is the documented "
    "recycle rule: first change posts and opens the window, changes inside post nothing, the other state's events once at "
    "its end)",
    "window: a report at exactly the instant a window ends is handled after the window's end",
    "an operation at exactly the instant of a hold deadline may land before or after it (both outcomes accepted, never "
    "two calls)",
    "a handler added by a callback during the dispatch of a change may or may not be called for that same change",
]
SW = ["s_no1", "s_no2", "s_nc1", "s_nc2"]
NC = {"s_nc1", "s_nc2"}
HOLDS = [0, 0, 1, 50, 100, 1000]
EVENTS = {  # switch -> state -> configured events (besides <name>_active/_inactive)
    "s_no1": {1: ["sw_t1", "sw_t1_active", "ev_on"], 0: ["sw_t1_inactive", "ev_off"]},
    "s_nc1": {1: ["sw_t2", "sw_t2_active"], 0: ["sw_t2_inactive"]},
}
NH = 8

hspec = st.fixed_dictionaries({
    "sw": st.integers(0, 3), "state": st.integers(0, 1), "ms": st.sampled_from(HOLDS),
    # what the callback does when it fires
    "on_call": st.one_of(st.none(), st.none(), st.none(),
                         st.just(["remove_self"]),
                         st.tuples(st.just("remove"), st.integers(0, NH - 1)).map(list),
                         st.tuples(st.just("add"), st.integers(0, NH - 1)).map(list)),
})
op = st.one_of(
    st.tuples(st.just("report"), st.integers(0, 3), st.integers(0, 1), st.sampled_from(["num", "raw", "logical"])),
    st.tuples(st.just("report"), st.integers(0, 3), st.integers(0, 1), st.sampled_from(["num", "raw", "logical"])),
    st.tuples(st.just("report"), st.integers(0, 3), st.integers(0, 1), st.sampled_from(["num", "raw", "logical"])),
    st.tuples(st.just("add"), st.integers(0, NH - 1)),
    st.tuples(st.just("add"), st.integers(0, NH - 1)),
    st.tuples(st.just("remove"), st.integers(0, NH - 1)),
    st.tuples(st.just("query"), st.integers(0, 3), st.integers(0, 1), st.sampled_from([0, 1, 50, 100, 1000])),
    st.tuples(st.just("mute"), st.sampled_from([0, 0, 2, 1]), st.booleans()),
    st.tuples(st.just("advance"), st.sampled_from([0, 1, 2, 10, 49, 50, 51, 99, 100, 101, 500, 1000, 5000])),
    st.tuples(st.just("advance"), st.sampled_from([0, 1, 2, 10, 49, 50, 51, 99, 100, 101, 500, 1000, 5000])),
).map(list)
swi = st.sampled_from([0, 0, 0, 2, 2, 1, 3])      # concentrate the action on one NO and one NC switch
hspec = st.fixed_dictionaries({
    "sw": swi, "state": st.integers(0, 1), "ms": st.sampled_from(HOLDS),
    "on_call": hspec.wrapped_strategy.mapping["on_call"] if hasattr(hspec, "wrapped_strategy") else st.none(),
}) if False else hspec


@st.composite
def case_strategy_c(draw):
    handlers = draw(st.lists(hspec, min_size=NH, max_size=NH))
    for h in handlers:
        h["sw"] = draw(swi)
    pre = [["add", i] for i in draw(st.lists(st.integers(0, NH - 1), min_size=2, max_size=8))]
    if draw(st.integers(0, 3)) == 0:
        # directed opening: an untimed handler removes (or re-adds) a timed handler of the same switch and state in the very
        # dispatch that starts the timed one's hold interval
        stt = draw(st.integers(0, 1))
        swx = draw(st.sampled_from([0, 2]))
        hold = draw(st.sampled_from([1, 50]))
        handlers[0] = {"sw": swx, "state": stt, "ms": 0, "on_call": draw(st.sampled_from([["remove", 1], ["remove", 1], ["add", 1]]))}
        handlers[1] = {"sw": swx, "state": stt, "ms": hold, "on_call": None}
        order = draw(st.sampled_from([[0, 1], [1, 0]]))
        pre = [["report", swx, 1 - stt, "logical"], ["advance", 2]] + [["add", i] for i in order] + [
            ["report", swx, stt, "logical"], ["advance", hold + 1]]
    ops = draw(st.lists(op, min_size=3, max_size=40))
    for o in ops:
        if o[0] in ("report", "query"):
            o[1] = draw(swi)
    return {"handlers": handlers, "ops": pre + ops}


case_strategy = case_strategy_c()


class Run:
    def __init__(self, rig, case):
        self.rig = rig
        self.case = case
        self.m = rig.machine
        self.sc = rig.machine.switch_controller
        self.log = []
        self.T = 0          # integer ms since the harness started issuing operations
        self.t_base = rig.now
        self.cbs = [functools.partial(self._call, i) for i in range(NH)]

    def _now_ms(self):
        return (self.rig.now - self.t_base) * 1000.0

    def _call(self, hid):
        self.log.append(["CALL", hid, self._now_ms()])
        oc = self.case["handlers"][hid]["on_call"]
        if oc:
            if oc[0] == "remove_self":
                self.remove(hid, True)
            elif oc[0] == "remove":
                self.remove(oc[1], True)
            elif oc[0] == "add":
                self.add(oc[1], True)

    def _evt(self, name, **kwargs):
        del kwargs
        self.log.append(["EVT", name, self._now_ms()])

    def add(self, hid, nested=False):
        h = self.case["handlers"][hid]
        self.log.append(["ADD", hid, int(round(self._now_ms())), nested])
        self.sc.add_switch_handler(SW[h["sw"]], self.cbs[hid], state=h["state"], ms=h["ms"])

    def remove(self, hid, nested=False):
        h = self.case["handlers"][hid]
        self.log.append(["REMOVE", hid, int(round(self._now_ms())), nested])
        self.sc.remove_switch_handler(SW[h["sw"]], self.cbs[hid], state=h["state"], ms=h["ms"])

    def run(self):
        names = set()
        for sw in SW:
            names.update([sw + "_active", sw + "_inactive"])
        for d in EVENTS.values():
            for lst in d.values():
                names.update(lst)
        names.update(TIMED_NAMES)
        for n in sorted(names):
            self.m.events.add_handler(n, functools.partial(self._evt, n))
        init = {sw: (self.m.switches[sw].state, self.m.switches[sw].hw_state) for sw in SW}
        self.log.append(["INIT", init])
        for o in self.case["ops"]:
            k = o[0]
            if k == "report":
                sw = self.m.switches[SW[o[1]]]
                self.log.append(["REPORT", SW[o[1]], o[2], o[3], self.T])
                if o[3] == "num":
                    self.sc.process_switch_by_num(sw.hw_switch.number, o[2], sw.platform, logical=False)
                elif o[3] == "raw":
                    self.sc.process_switch(SW[o[1]], o[2], logical=False)
                else:
                    self.sc.process_switch(SW[o[1]], o[2], logical=True)
                self.log.append(["SYNC_END"])
                self.rig.run_ready()
                self.log.append(["STATE", SW[o[1]], sw.state, sw.hw_state])
            elif k == "add":
                self.add(o[1])
            elif k == "mute":
                sw = self.m.switches[SW[o[1]]]
                if o[2]:
                    sw.mute("verif")
                else:
                    sw.unmute("verif")
                self.log.append(["MUTE", SW[o[1]], bool(o[2])])
            elif k == "remove":
                self.remove(o[1])
            elif k == "query":
                sw = self.m.switches[SW[o[1]]]
                if o[2]:
                    r = self.sc.is_active(sw, ms=o[3])
                else:
                    r = self.sc.is_inactive(sw, ms=o[3])
                r2 = self.sc.is_state(sw, o[2], ms=o[3])
                self.log.append(["QUERY", SW[o[1]], o[2], o[3], bool(r), bool(r2), self.T])
            elif k == "advance":
                self.log.append(["ADVANCE", o[1], self.T])
                self.rig.advance(o[1] / 1000.0)
                self.T += o[1]
                self.log.append(["ADVANCED", self.T])
        self.log.append(["ADVANCE", 1500, self.T])
        self.rig.advance(1.5)
        self.T += 1500
        self.log.append(["ADVANCED", self.T])
        return self.log


# configured events with a hold time ("event|ms", unitless = ms): posted once, that long after the change, if held
TIMED_EVENTS = {"s_no1": {1: [("ev_on_held", 30), ("ev_on_u", 20)], 0: [("ev_off_held", 40)]},
                "s_nc1": {1: [("evn_on", 25)]}}
TIMED_NAMES = {n for d in TIMED_EVENTS.values() for lst in d.values() for n, _ in lst}


class Oracle:
    def __init__(self, case, log):
        self.case = case
        self.h = case["handlers"]
        self.log = log
        self.vio = []
        self.classes = set()
        self.state = {}
        self.t0 = {}
        self.regs = []          # dicts(rid, hid, live)
        self.pending = []       # dicts(rid, hid, due, optional)
        self.immediate = []     # dicts(hid, rid) expected synchronously
        self.optional_immediate = []
        self.exp_events = []
        self.timed_ev = []      # dicts(name, sw, due, optional)
        self.muted = set()      # muted switches keep their state up to date but call nobody
        self.nrid = 0

    def v(self, sig, msg):
        if len(self.vio) < 6:
            self.vio.append(violation(sig, msg))

    def close_sync(self, where):
        for e in self.immediate:
            self.v("untimed-handler-missed", "handler %d (untimed, %s state %d) was not called for the change at %s" % (
                e["hid"], SW[self.h[e["hid"]]["sw"]], self.h[e["hid"]]["state"], where))
        self.immediate = []
        self.optional_immediate = []

    def close_events(self, where):
        for n in self.exp_events:
            self.v("event-missing", "event %s was not posted for the change at %s" % (n, where))
        self.exp_events = []

    def run(self):
        T = 0
        last_report = None
        for e in self.log:
            k = e[0]
            if k == "INIT":
                for sw, (s, hw) in e[1].items():
                    self.state[sw] = s
                    self.t0[sw] = None      # unknown / long ago
            elif k == "REPORT":
                self.close_sync("T=%d" % T)
                self.close_events("T=%d" % T)
                _, sw, val, how, T = e
                logical = val if how == "logical" else (val ^ 1 if sw in NC else val)
                last_report = (sw, logical)
                self.real_change = False
                if logical == self.state[sw]:
                    self.classes.add("duplicate-report")
                    self._track(e)
                    continue
                self.real_change = True
                # real change
                self.state[sw] = logical
                self.t0[sw] = T
                if sw in self.muted:
                    # a muted switch follows the hardware, drops what was pending for the state it left and calls nobody
                    self.classes.add("change-while-muted")
                    self.pending = [p for p in self.pending if SW[self.h[p["hid"]]["sw"]] != sw]
                    self.timed_ev = [p for p in self.timed_ev if p["sw"] != sw]
                    self._track(e)
                    continue
                for p in list(self.pending):
                    if SW[self.h[p["hid"]]["sw"]] == sw:
                        self.classes.add("change-inside-hold-interval")
                        self.pending.remove(p)   # due < T would have been reported at ADVANCED; due == T is open
                for r in self.regs:
                    hh = self.h[r["hid"]]
                    if r["live"] and SW[hh["sw"]] == sw and hh["state"] == logical:
                        if hh["ms"] == 0:
                            self.immediate.append({"hid": r["hid"], "rid": r["rid"]})
                        else:
                            self.pending.append({"rid": r["rid"], "hid": r["hid"], "due": T + hh["ms"], "optional": False})
                self.exp_events = [sw + ("_active" if logical else "_inactive")] + list(EVENTS.get(sw, {}).get(logical, []))
                for p in list(self.timed_ev):
                    if p["sw"] == sw:
                        self.timed_ev.remove(p)     # the state was left before (or exactly at) the deadline
                for name, ms in TIMED_EVENTS.get(sw, {}).get(logical, []):
                    self.timed_ev.append({"name": name, "sw": sw, "due": T + ms})
                    self.classes.add("configured event with hold time armed")
            elif k == "MUTE":
                if e[2]:
                    self.muted.add(e[1])
                else:
                    self.muted.discard(e[1])
            elif k == "SYNC_END":
                self.close_sync("T=%d" % T)
            elif k == "STATE":
                _, sw, s, hw = e
                self.close_events("T=%d" % T)
                if s != self.state[sw]:
                    self.v("state-wrong", "%s logical state is %r after reports, last reported logical state %r" % (
                        sw, s, self.state[sw]))
                if hw != (self.state[sw] ^ (1 if sw in NC else 0)) and self.real_change:
                    self.v("hw-state-wrong", "%s hw_state is %r but logical state %r on a %s switch" % (
                        sw, hw, self.state[sw], "NC" if sw in NC else "NO"))
            elif k == "ADD":
                _, hid, T_, nested = e
                hh = self.h[hid]
                sw = SW[hh["sw"]]
                rid = self.nrid
                self.nrid += 1
                self.regs.append({"rid": rid, "hid": hid, "live": True})
                if nested:
                    self.classes.add("registry-change-from-callback")
                    if hh["ms"] == 0 and last_report and last_report == (sw, hh["state"]) and self.in_sync:
                        self.optional_immediate.append({"hid": hid, "rid": rid})
                if hh["ms"] > 0 and self.state[sw] == hh["state"]:
                    self.classes.add("registration-while-in-state")
                    t0 = self.t0[sw]
                    if t0 is not None:
                        nowT = T_
                        if t0 + hh["ms"] > nowT:
                            self.pending.append({"rid": rid, "hid": hid, "due": t0 + hh["ms"], "optional": False})
                        elif t0 + hh["ms"] == nowT:
                            self.pending.append({"rid": rid, "hid": hid, "due": t0 + hh["ms"], "optional": True})
            elif k == "REMOVE":
                _, hid, T_, nested = e
                if nested:
                    self.classes.add("registry-change-from-callback")
                for r in self.regs:
                    if r["hid"] == hid:
                        r["live"] = False
                if any(p["hid"] == hid for p in self.pending):
                    self.classes.add("removal-with-pending-timed-entry")
                self.pending = [p for p in self.pending if p["hid"] != hid]
                self.immediate = [p for p in self.immediate if p["hid"] != hid]
                self.optional_immediate = [p for p in self.optional_immediate if p["hid"] != hid]
            elif k == "CALL":
                _, hid, t = e
                self.on_call(hid, t)
            elif k == "EVT":
                _, name, t = e
                if name in TIMED_NAMES:
                    hit = [p for p in self.timed_ev if p["name"] == name and abs(p["due"] - t) < 1e-3]
                    if hit:
                        self.timed_ev.remove(hit[0])
                    else:
                        self.v("timed-event-unexpected", "configured event %s posted at %.3f ms; outstanding deadlines: %r "
                               "(last report %r)" % (name, t, [(p["name"], p["due"]) for p in self.timed_ev], last_report))
                elif name in self.exp_events:
                    self.exp_events.remove(name)
                else:
                    self.v("event-unexpected", "event %s posted at %.3f ms without a real change that configures it "
                           "(last report %r)" % (name, t, last_report))
            elif k == "QUERY":
                _, sw, st_, ms, r, r2, T_ = e
                t0 = self.t0[sw]
                held = 10 ** 9 if t0 is None else T_ - t0
                exp = self.state[sw] == st_ and (ms == 0 or held >= ms)
                if r != exp or r2 != exp:
                    self.v("query-wrong", "is_%s(%s, ms=%d) returned %r / is_state %r; switch state %r for %s ms" % (
                        "active" if st_ else "inactive", sw, ms, r, r2, self.state[sw], held))
            elif k == "ADVANCE":
                self.close_sync("T=%d" % T)
                self.close_events("T=%d" % T)
            elif k == "ADVANCED":
                T = e[1]
                for p in list(self.timed_ev):
                    if p["due"] < T:
                        self.v("timed-event-missing", "configured event %s of %s was due at T=%d ms (switch held) and had not "
                               "been posted by T=%d" % (p["name"], p["sw"], p["due"], T))
                        self.timed_ev.remove(p)
                for p in list(self.pending):
                    if p["due"] < T and not p["optional"]:
                        hh = self.h[p["hid"]]
                        self.v("timed-handler-missed", "handler %d (%s state %d, hold %d ms) was due at T=%d ms and had not "
                               "fired by T=%d" % (p["hid"], SW[hh["sw"]], hh["state"], hh["ms"], p["due"], T))
                        self.pending.remove(p)
                    elif p["due"] < T:
                        self.pending.remove(p)
            self._track(e)
        return self.vio

    in_sync = False
    real_change = False
    cur_T = 0

    def _track(self, e):
        if e[0] == "REPORT":
            self.in_sync = True
            self.cur_T = e[4]
        elif e[0] == "SYNC_END":
            self.in_sync = False
        elif e[0] == "ADVANCED":
            self.cur_T = e[1]

    def on_call(self, hid, t):
        hh = self.h[hid]
        for lst in (self.immediate, self.optional_immediate):
            for p in lst:
                if p["hid"] == hid:
                    lst.remove(p)
                    return
        # timed?
        best = None
        for p in self.pending:
            if p["hid"] == hid and abs(p["due"] - t) < 1e-3:
                best = p
                break
        if best is not None:
            self.pending.remove(best)
            return
        live = any(r["live"] for r in self.regs if r["hid"] == hid)
        pend = [p["due"] for p in self.pending if p["hid"] == hid]
        if not live:
            self.v("call-after-removal", "handler %d (%s state %d, hold %d ms) fired at %.3f ms after it had been removed" % (
                hid, SW[hh["sw"]], hh["state"], hh["ms"], t))
        elif pend:
            self.v("timed-handler-wrong-time", "handler %d (%s state %d, hold %d ms) fired at %.3f ms; it is due at %r" % (
                hid, SW[hh["sw"]], hh["state"], hh["ms"], t, pend))
        else:
            self.v("unexpected-call", "handler %d (%s state %d, hold %d ms) fired at %.3f ms but no change/hold is "
                   "outstanding for it (switch state %r since %r)" % (
                       hid, SW[hh["sw"]], hh["state"], hh["ms"], t, self.state[SW[hh["sw"]]], self.t0[SW[hh["sw"]]]))


def check(case):
    with Rig("switches") as rig:
        rig.advance(0.5)
        log = Run(rig, case).run()
        exc = rig.exception_summaries()
    orc = Oracle(case, log)
    vio = orc.run()
    if exc:
        vio.append(violation("loop-exception", "exception reached the loop: %s" % exc[:2]))
    nontrivial = bool(orc.classes)
    return Result(vio or None, sorted(orc.classes) or ["plain"], nontrivial)


# ---- switches with an ignore window: one event per state the switch settles in ------------------------------------------
WIN = {"s_w_no": (50, 0), "s_w_nc": (30, 1)}     # name -> (ignore_window_ms, inverted)
WIN_PATCH = {"switches": {
    "s_w_no": {"number": 11, "ignore_window_ms": 50, "events_when_activated": "w_no_on", "events_when_deactivated": "w_no_off"},
    "s_w_nc": {"number": 12, "type": "NC", "ignore_window_ms": 30, "events_when_activated": "w_nc_on",
               "events_when_deactivated": "w_nc_off"},
}}
case_window = st.lists(st.one_of(
    st.tuples(st.just("hw"), st.sampled_from(sorted(WIN)), st.integers(0, 1)).map(list),
    st.tuples(st.just("hw"), st.sampled_from(sorted(WIN)), st.integers(0, 1)).map(list).map(lambda o: o + ["by_name"]),
    st.tuples(st.just("advance"), st.sampled_from([0, 1, 3, 10, 20, 29, 30, 31, 49, 50, 51, 80, 200])).map(list),
), min_size=3, max_size=30).map(lambda ops: {"ops": ops})


def check_window(case):
    """Documented behaviour of ignore_window_ms: the events of a change are posted and a window starts; changes inside the
    window post nothing; when the window ends and the switch is in another state than the one that opened it, the events
    of that state are posted once. The logical state itself always mirrors the last hardware report (NO and NC)."""
    vio = []
    classes = set()
    with Rig("switches", patches=WIN_PATCH) as rig:
        m = rig.machine
        got = []
        names = {}
        for sw, (_w, _inv) in WIN.items():
            short = sw[2:]
            for st_, evs in ((1, [short + "_on", sw + "_active"]), (0, [short + "_off", sw + "_inactive"])):
                for e in evs:
                    names[e] = (sw, st_)
                    m.events.add_handler(e, lambda _e=e, **kwargs: got.append((_e, round(rig.now * 1000, 3))))
        state = {sw: m.switches[sw].state for sw in WIN}
        hw0 = {sw: state[sw] ^ inv for sw, (_w, inv) in WIN.items()}
        window = {sw: None for sw in WIN}       # (end_ms, state that opened it)
        expected = []
        T0 = rig.now

        def now_ms():
            return round((rig.now - T0) * 1000, 3)

        def expect(sw, st_, t):
            short = sw[2:]
            for e in ([short + "_on", sw + "_active"] if st_ else [short + "_off", sw + "_inactive"]):
                expected.append((e, t))

        def close_windows(upto):
            for sw in sorted(WIN, key=lambda x: (window[x] or (0,))[0]):
                w = window[sw]
                if w is not None and w[0] <= upto + 1e-6:
                    window[sw] = None
                    if state[sw] != w[1]:
                        classes.add("settled in the other state at the end of a window")
                        expect(sw, state[sw], w[0])
        del hw0
        for o in case["ops"]:
            if o[0] == "advance":
                rig.advance(o[1] / 1000.0)
                close_windows(now_ms())
            else:
                _, sw, hw = o[:3]
                logical = hw ^ WIN[sw][1]
                close_windows(now_ms())
                if len(o) > 3:
                    m.switch_controller.process_switch(sw, hw, logical=False)
                else:
                    obj = m.switches[sw]
                    m.switch_controller.process_switch_by_num(obj.hw_switch.number, hw, obj.platform, logical=False)
                rig.run_ready()
                if logical != state[sw]:
                    state[sw] = logical
                    if window[sw] is None:
                        window[sw] = (now_ms() + WIN[sw][0], logical)
                        expect(sw, logical, now_ms())
                    else:
                        classes.add("change inside a window")
                if m.switches[sw].state != logical:
                    vio.append(violation("window:state-differs", "%s (%s) reported hw=%d: logical state is %d, expected %d" % (
                        sw, "NC" if WIN[sw][1] else "NO", hw, m.switches[sw].state, logical)))
                    break
        rig.advance(0.3)
        close_windows(now_ms())
        gotn = [(e, round(t - T0 * 1000, 3)) for e, t in got]
        if not vio and sorted(gotn) != sorted(expected):
            from collections import Counter
            ce, cg = Counter(e for e, _ in expected), Counter(e for e, _ in gotn)
            if ce != cg:
                diff = {k: (ce[k], cg[k]) for k in set(ce) | set(cg) if ce[k] != cg[k]}
                kinds = sorted({("nc" if "nc" in k else "no") for k in diff})
                vio.append(violation("window:event-count:" + ",".join(kinds), "events of switches with an ignore window (expected, posted) "
                                     "differ: %r; posted %r, expected %r; operations %r" % (diff, gotn, expected, case["ops"])))
            else:
                vio.append(violation("window:event-time", "events of switches with an ignore window were posted at %r, expected %r" % (
                    sorted(gotn), sorted(expected))))
        exc = rig.exception_summaries()
    if exc and not vio:
        vio.append(violation("loop-exception", "exception reached the loop: %s" % exc[:2]))
    return Result(vio or None, sorted(classes) or ["plain"], bool(classes))


SUBCHECKS = [
    SubCheck("timeline", lambda: case_strategy, check, quick=3000, thorough=80000, procs_quick=8),
    SubCheck("window", lambda: case_window, check_window, quick=1500, thorough=30000, procs_quick=4),
]
