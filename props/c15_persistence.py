"""C15 — Persistent data is durable, never torn, and survives write failures."""
import builtins
import copy
import math
import os
import shutil
import tempfile
import threading
import types

from hypothesis import strategies as st

from vlib.engine import Result, SubCheck, violation

PROPERTY = "C15"
LEVEL = "fault_enumeration"
RULE = ("writer: a real DataManager on a temporary directory whose _writing_thread runs in a real thread under a "
        "cooperative baton (time.sleep, the dirty-flag wait, deepcopy, file open, every file write, close and os.replace "
        "are yield points); a case is a history of save_all(value) with YAML-representable values, generated numbers of "
        "writer steps between operations, fake-clock advances, at most one injected OSError or one simulated process "
        "death at a generated point of a file save, and a clean shutdown. Non-trivial = a save arriving while the writer "
        "sleeps in its rate limit or is mid-write, a shutdown with the dirty flag set, an error followed by another save, "
        "or a crash inside the temp-file write. reboot: machine variables set with persist/expire_secs, written through "
        "the real YAML interface and reloaded into a machine booted a generated time later; non-trivial = a value whose "
        "YAML text looks like another type, a nested value, or an expiry on either side of the reboot time. Distinct = "
        "distinct case hash.")
ASSUMPTIONS = [
    "a crash is process death at a call-level point: completed system calls persist (no power-loss / fsync model) and "
    "pre-emption only happens at the listed yield points",
    "the pickle interface is not covered",
    "reboot: setting a variable to a value that is equal to its current one but of another type (0 -> False, 1 -> 1.0) is "
    "no change for MPF (nothing is written); such re-sets are skipped and counted",
    "after the generated history the writer is given 400 further steps; a save still not on disk then counts as lost",
    "reboot: the data written by the first machine is passed through FileManager.save/load on a real file and handed to "
    "the second machine as its machine_vars data (the test machines use an in-memory data manager)",
]


class SimulatedCrash(BaseException):
    """Process death: nothing of the writer runs after this."""


# ---- values -------------------------------------------------------------------------------------------
tricky = st.sampled_from(["1", "true", "~", ": x", "null", "- a", "{a: b}", "é日本", "", " ", "a\nb", "#c", "0x10", "1e3", "yes",
                          "'q'", '"dq"', "a: b: c", "\t", "0o17", "2026-10-04"])
scalar = st.one_of(tricky, st.text(max_size=8), st.integers(-10 ** 9, 10 ** 9), st.booleans(), st.none(),
                   st.floats(allow_nan=False, allow_infinity=False, width=32), st.sampled_from([0.5, -1.25, 1e10]))
value = st.recursive(scalar, lambda ch: st.one_of(st.lists(ch, max_size=3), st.dictionaries(st.one_of(tricky, st.text(max_size=5)), ch, max_size=3)),
                     max_leaves=8)
data_dict = st.dictionaries(st.one_of(st.sampled_from(["a", "b", "score", "1", "true"]), st.text(min_size=1, max_size=6)), value, max_size=4)

op = st.one_of(
    st.tuples(st.just("save"), data_dict).map(list),
    st.tuples(st.just("save"), data_dict).map(list),
    st.tuples(st.just("writer"), st.integers(1, 12)).map(list),
    st.tuples(st.just("writer"), st.integers(1, 12)).map(list),
    st.tuples(st.just("writer"), st.integers(1, 40)).map(list),
    # another data manager of the same process saves (FileManager is shared): to a path with a supported extension or
    # to one no file interface is registered for (its save fails; ours must go on)
    st.tuples(st.just("foreign_save"), st.sampled_from([".yaml", ".yml", ".json", ""])).map(list),
)
fault = st.one_of(
    st.none(),
    st.tuples(st.sampled_from(["error", "crash"]), st.sampled_from(["open", "write", "close", "replace", "after_replace"]),
              st.integers(1, 3), st.integers(0, 6)).map(list),
    st.tuples(st.sampled_from(["error", "crash"]), st.just("write"), st.integers(1, 2), st.integers(0, 8)).map(list),
    # a write that fails with something that is no OSError: the text layer refusing a string half way through the temp file
    # (what file.write does with a lone surrogate) or the emitter refusing a value
    st.tuples(st.sampled_from(["error_unicode", "error_value"]), st.just("write"), st.integers(1, 2), st.integers(0, 8)).map(list),
)
case_writer = st.fixed_dictionaries({
    "ops": st.lists(op, min_size=2, max_size=14),
    "fault": fault,
    "shutdown_after_steps": st.integers(0, 6),
    "min_wait_secs": st.sampled_from([1, 1, 0]),
})


def same(a, b):
    if type(a) is not type(b):
        if isinstance(a, dict) and isinstance(b, dict):
            pass
        elif isinstance(a, list) and isinstance(b, list):
            pass
        else:
            return False
    if isinstance(a, float):
        return (math.isnan(a) and math.isnan(b)) or a == b
    if isinstance(a, dict):
        return set(a.keys()) == set(b.keys()) and all(same(a[k], b[k]) for k in a)
    if isinstance(a, list):
        return len(a) == len(b) and all(same(x, y) for x, y in zip(a, b))
    return a == b


class Baton:
    """Serialises the writer thread and the harness thread; the writer stops at every yield point."""

    def __init__(self):
        self.to_writer = threading.Semaphore(0)
        self.to_main = threading.Semaphore(0)
        self.trace = []
        self.writer_done = False
        self.steps_left = 0
        self.fake_time = 0.0
        self.fault = None
        self.counts = {}
        self.crashed = False
        self.error_injected = False
        self.in_save = False
        self.in_sleep = False
        self.abort = False
        self.writer_exception = None
        self.thread_ident = None

    def yield_point(self, name):
        """Called from the writer thread."""
        if threading.get_ident() != self.thread_ident:
            return      # a thread that does not belong to this case (should not exist; never let it disturb the schedule)
        if self.abort:
            raise SimulatedCrash("harness teardown")     # the case is over: the writer thread must not outlive it
        self.trace.append(name)
        self.counts[name] = self.counts.get(name, 0) + 1
        self.steps_left -= 1
        if self.steps_left <= 0:
            self.to_main.release()
            self.to_writer.acquire()
        f = self.fault
        if f is not None and f[1] == name and not self.error_injected and not self.crashed:
            if self.counts[name] == f[2] + (f[3] if name == "write" else 0):
                if f[0] == "error":
                    self.error_injected = True
                    raise OSError("injected I/O error at %s" % name)
                if f[0] == "error_unicode":
                    self.error_injected = True
                    raise UnicodeEncodeError("utf-8", "\udc80", 0, 1, "surrogates not allowed (injected at %s)" % name)
                if f[0] == "error_value":
                    self.error_injected = True
                    raise ValueError("injected: value cannot be written (at %s)" % name)
                self.crashed = True
                raise SimulatedCrash(name)

    def run_writer(self, steps):
        """Called from the harness thread: let the writer pass `steps` yield points."""
        if self.writer_done:
            return
        self.steps_left = steps
        self.to_writer.release()
        self.to_main.acquire()


class FakeEvent:
    def __init__(self, baton):
        self.flag = False
        self.baton = baton

    def set(self):
        self.flag = True

    def clear(self):
        self.flag = False

    def is_set(self):
        return self.flag

    def wait(self, timeout=None):
        self.baton.in_sleep = True
        self.baton.yield_point("dirty_wait")
        self.baton.in_sleep = False
        if not self.flag and timeout:
            self.baton.fake_time += timeout
        return self.flag


class FileWrap:
    def __init__(self, f, baton):
        self.f = f
        self.baton = baton

    def write(self, data):
        # a crash can fall after any prefix: write in two halves around the yield point
        half = len(data) // 2
        self.f.write(data[:half])
        self.f.flush()
        self.baton.yield_point("write")
        self.f.write(data[half:])
        return len(data)

    def __enter__(self):
        return self

    def __exit__(self, *exc):
        if exc[0] is None:
            self.baton.yield_point("close")
        self.f.close()
        return False

    def __getattr__(self, name):
        return getattr(self.f, name)


def check_writer(case):
    from mpf.core import data_manager as dm_mod
    from mpf.core import file_manager as fm_mod
    from mpf.file_interfaces import yaml_interface as yi_mod
    from mpf.core.file_manager import FileManager
    # every case is a fresh process as far as the YAML emitter is concerned (a simulated crash in an earlier case
    # leaves the module-global ruamel instance half-way through a dump)
    from ruamel import yaml as _ry
    yi_mod._yaml = _ry.YAML(typ="safe")
    yi_mod._yaml.default_flow_style = False
    tmp = tempfile.mkdtemp(prefix="c15_")
    baton = Baton()
    baton.fault = case["fault"]
    fname = os.path.join(tmp, "data", "test.yaml")
    vio = []
    classes = set()
    saved = []          # values handed to save_all, in order
    foreign_failed = []
    # ---- patch the module namespaces the writer uses
    fake_time = types.SimpleNamespace(sleep=None, time=lambda: baton.fake_time)

    def fake_sleep(n):
        baton.in_sleep = True
        baton.yield_point("sleep")
        baton.in_sleep = False
        baton.fake_time += n
    fake_time.sleep = fake_sleep
    fake_copy = types.SimpleNamespace(copy=copy.copy, deepcopy=None)

    def fake_deepcopy(x):
        baton.yield_point("deepcopy")
        return copy.deepcopy(x)
    fake_copy.deepcopy = fake_deepcopy

    def fake_open(name, mode="r", *a, **kw):
        if "w" in mode and os.path.dirname(name) == os.path.dirname(fname):
            baton.in_save = True
            baton.yield_point("open")
            return FileWrap(builtins.open(name, mode, *a, **kw), baton)
        return builtins.open(name, mode, *a, **kw)

    class FakeOs:
        def __getattr__(self, name):
            return getattr(os, name)

        @staticmethod
        def replace(a, b):
            baton.yield_point("replace")
            os.replace(a, b)
            baton.yield_point("after_replace")
            baton.in_save = False
    orig = (dm_mod.time, dm_mod.copy, getattr(yi_mod, "open", None), fm_mod.os, FileManager.is_busy)
    dm_mod.time = fake_time
    dm_mod.copy = fake_copy
    yi_mod.open = fake_open
    fm_mod.os = FakeOs()
    FileManager.is_busy = False
    stopper = threading.Event()
    machine = types.SimpleNamespace(
        config={"mpf": {"paths": {"test": fname}}, "logging": {"console": {"data_manager": "none"}, "file": {"data_manager": "none"}}},
        machine_path=tmp, thread_stopper=stopper, options={"production": False}, log=None)
    thread = None
    try:
        # the DataManager starts its writer with _thread.start_new_thread: run the same function in a thread we can join
        orig_start = dm_mod._thread.start_new_thread
        started = []

        def start_new_thread(fn, args):
            def body():
                baton.thread_ident = threading.get_ident()
                baton.to_writer.acquire()
                try:
                    fn(*args)
                except SimulatedCrash:
                    pass
                except BaseException:   # pylint: disable=broad-except
                    import traceback
                    if not stopper.is_set():       # dying in the final flush at shutdown loses nothing that could still be saved
                        baton.writer_exception = traceback.format_exc()
                finally:
                    baton.writer_done = True
                    baton.to_main.release()
            t = threading.Thread(target=body, daemon=True)
            started.append(t)
            t.start()
        dm_mod._thread = types.SimpleNamespace(start_new_thread=start_new_thread)
        try:
            dm = dm_mod.DataManager(machine, "test", min_wait_secs=case["min_wait_secs"])
            dm._dirty = FakeEvent(baton)        # the writer has not run yet: it waits for the baton
        finally:
            dm_mod._thread = types.SimpleNamespace(start_new_thread=orig_start)
        thread = started[0]
        # ---- the history
        for o in case["ops"]:
            if baton.crashed:
                break
            if o[0] == "foreign_save":
                if not FileManager.is_busy and not baton.in_save:
                    try:
                        FileManager.save(os.path.join(tmp, "data", "other" + o[1]), {"x": 1})
                    except Exception:   # pylint: disable=broad-except
                        classes.add("another manager's save failed (no file interface)")
                        foreign_failed.append(len(saved))
                continue
            if o[0] == "save":
                if baton.in_sleep and baton.trace and baton.trace[-1] == "sleep":
                    classes.add("save-during-rate-limit-sleep")
                if baton.in_save:
                    classes.add("save-during-write")
                if baton.error_injected:
                    classes.add("save-after-error")
                saved.append(copy.deepcopy(o[1]))
                dm.save_all(copy.deepcopy(o[1]))
            else:
                baton.run_writer(o[1])
        # ---- shutdown (clean) unless the process died
        if not baton.crashed:
            baton.run_writer(case["shutdown_after_steps"]) if case["shutdown_after_steps"] else None
            if dm._dirty.is_set():
                classes.add("shutdown-with-dirty-flag")
            if not baton.crashed:
                stopper.set()
                for _ in range(400):
                    if baton.writer_done:
                        break
                    baton.run_writer(1)
        if baton.crashed and baton.fault and baton.fault[1] == "write":
            classes.add("crash-inside-temp-file-write")
        if baton.crashed:
            classes.add("crash")
        if baton.error_injected:
            classes.add("io-error-injected" if baton.fault[0] == "error" else "non-io write failure injected")
        # ---- inspect the disk
        on_disk = "absent"
        if os.path.exists(fname):
            try:
                on_disk = FileManager.load(fname, halt_on_error=True)
                on_disk = yi_mod.YamlInterface.to_plain_dict(on_disk) if on_disk is not None else {}
            except Exception as e:   # pylint: disable=broad-except
                with builtins.open(fname, "rb") as f:
                    raw = f.read()
                vio.append(violation("torn-or-unparsable-file", "the data file does not parse (%r); content %r; saved values %r; fault %r" % (
                    e, raw[:200], saved[-3:], case["fault"])))
                on_disk = None
        if on_disk is not None and not vio:
            if baton.crashed:
                ok = on_disk == "absent" or any(same(on_disk, s) for s in saved) or (on_disk == {} and {} in saved)
                if not ok:
                    vio.append(violation("crash:file-is-no-saved-version", "after a crash at %r the file holds %r, which is none of the "
                                         "saved values %r" % (case["fault"], on_disk, saved)))
            elif saved:
                last_write_failed = baton.error_injected and False
                if on_disk == "absent":
                    if not (baton.error_injected and "save-after-error" not in classes):
                        vio.append(violation("lost-at-shutdown:never-written", "%d save(s) were made and the machine shut down cleanly, "
                                             "but no file exists (writer trace tail %r; writer exception %r)" % (len(saved), baton.trace[-8:], (baton.writer_exception or "")[-200:])))
                elif not same(on_disk, saved[-1]):
                    if baton.error_injected and any(same(on_disk, s) for s in saved):
                        # the injected error may have hit the last write: then an earlier complete version is what remains
                        pass
                    else:
                        kind = "lost-at-shutdown" if any(same(on_disk, s) for s in saved) else "wrong-content"
                        vio.append(violation(kind, "after a clean shutdown the file holds %r but the last saved value is %r "
                                             "(%d saves; writer trace tail %r)" % (on_disk, saved[-1], len(saved), baton.trace[-10:])))
                del last_write_failed
            # a failed write must not stop later saves
            if baton.error_injected and not baton.crashed and "save-after-error" in classes:
                if on_disk == "absent" or not same(on_disk, saved[-1]):
                    vio.append(violation("wedged-after-error", "a save made after an injected I/O error (%r) never reached the disk: "
                                         "file %r, last saved %r, FileManager.is_busy=%r" % (case["fault"], on_disk, saved[-1], FileManager.is_busy)))
        if baton.writer_exception and not vio:
            vio.append(violation("writer-thread-died", "the writer thread died with an exception (every later save is lost): %s" % baton.writer_exception[-1500:]))
        if not baton.writer_done and not baton.crashed and not vio:
            vio.append(violation("writer-did-not-stop", "the writer thread did not finish within 400 steps after shutdown (trace tail %r, "
                                 "is_busy=%r)" % (baton.trace[-6:], FileManager.is_busy)))
    finally:
        # let the thread run to its end without the baton and clean up
        baton.fault = None
        baton.abort = True
        stopper.set()
        baton.steps_left = 10 ** 9
        baton.to_writer.release()
        if thread is not None:
            thread.join(timeout=10.0)
            if thread.is_alive():
                raise RuntimeError("writer thread outlived its case")
        dm_mod.time, dm_mod.copy, _, fm_mod.os, _ = orig
        if orig[2] is None:
            try:
                del yi_mod.open
            except AttributeError:
                pass
        else:
            yi_mod.open = orig[2]
        FileManager.is_busy = False
        shutil.rmtree(tmp, ignore_errors=True)
    nontrivial = bool(classes & {"save-during-rate-limit-sleep", "save-during-write", "shutdown-with-dirty-flag", "save-after-error",
                                 "crash-inside-temp-file-write"})
    return Result(vio or None, sorted(classes) or ["plain"], nontrivial)


# ---- reboot ----------------------------------------------------------------------------------------------
var = st.fixed_dictionaries({
    "name": st.sampled_from(["v_a", "v_b", "v_c", "v_d"]),
    "value": value,
    "persist": st.booleans(),
    "expire_secs": st.sampled_from([None, None, 10, 100, 3600]),
    "set_at": st.sampled_from([0, 5, 50]),
})
CFG_VARS = {"cfg_i": {"initial_value": 5, "value_type": "int", "persist": True},
            "cfg_s": {"initial_value": "start", "value_type": "str", "persist": True},
            "cfg_f": {"initial_value": 0.5, "value_type": "float", "persist": True}}
cfg_set = st.fixed_dictionaries({}, optional={
    "cfg_i": st.sampled_from([0, 0, 1, 7, -3]), "cfg_s": st.sampled_from(["", "", "abc", "0"]), "cfg_f": st.sampled_from([0.0, 0.0, 1.5])})
case_reboot = st.fixed_dictionaries({
    "cfg": cfg_set,
    "vars": st.lists(var, min_size=1, max_size=4, unique_by=lambda x: x["name"]),
    "reboot_after": st.sampled_from([1, 9, 11, 60, 99, 101, 5000]),
    # later sets of variables that already exist (index into vars), each after a gap: every set restarts the expiry
    "resets": st.lists(st.tuples(st.integers(0, 3), value, st.sampled_from([1, 20, 200, 4000])).map(list), max_size=3),
})


def check_reboot(case):
    from vlib.rig import Rig
    from mpf.core.file_manager import FileManager
    from mpf.file_interfaces.yaml_interface import YamlInterface
    from mpf.tests.loop import TimeTravelLoop
    vio = []
    classes = set()
    model = {}
    with Rig("null", patches={"machine_vars": CFG_VARS}) as rig:
        mv = rig.machine.variables
        t = 0
        for name, val in case.get("cfg", {}).items():
            mv.set_machine_var(name, val)
            model[name] = {"value": val, "persist": True, "expires": None}
            if not val:
                classes.add("falsy-value-of-config-declared-var")
        for v_ in sorted(case["vars"], key=lambda x: x["set_at"]):
            if v_["set_at"] > t:
                rig.advance(v_["set_at"] - t)
                t = v_["set_at"]
            mv.configure_machine_var(v_["name"], persist=v_["persist"], expire_secs=v_["expire_secs"])
            mv.set_machine_var(v_["name"], copy.deepcopy(v_["value"]))
            # a variable that keeps its value is not re-written: the model keeps the first expiry base in that case
            model[v_["name"]] = {"value": v_["value"], "persist": v_["persist"],
                                 "expires": (t + v_["expire_secs"]) if v_["expire_secs"] else None}
        for idx, val, after in case.get("resets", []):
            v_ = case["vars"][idx % len(case["vars"])]
            rig.advance(after)
            t += after
            cur = model[v_["name"]]["value"]
            try:
                equal_other_type = cur == val and not same(cur, val)
            except Exception:   # pylint: disable=broad-except
                equal_other_type = False
            if equal_other_type:
                # 0 -> False, 1 -> 1.0, [0, False] -> [0, 0]: equal values, so no change and nothing to write - which of
                # the two equal values is on disk afterwards is not something the statement fixes (excluded, counted)
                classes.add("re-set with an equal value of another type (skipped)")
                continue
            mv.set_machine_var(v_["name"], copy.deepcopy(val))
            classes.add("variable set again" + (" after its previous expiry" if v_["expire_secs"] and
                                                 model[v_["name"]]["expires"] is not None and
                                                 model[v_["name"]]["expires"] < t else ""))
            model[v_["name"]] = {"value": val, "persist": v_["persist"],
                                 "expires": (t + v_["expire_secs"]) if v_["expire_secs"] else None}
        rig.run_ready()
        t_end = t
        written = rig.machine.variables.machine_var_data_manager.written_data
    tmp = tempfile.mkdtemp(prefix="c15r_")
    try:
        fn = os.path.join(tmp, "machine_vars.yaml")
        data = written if written is not None else {}
        FileManager.save(fn, copy.deepcopy(data))
        loaded = YamlInterface.to_plain_dict(FileManager.load(fn, halt_on_error=True) or {})
    except Exception as e:   # pylint: disable=broad-except
        shutil.rmtree(tmp, ignore_errors=True)
        return Result([violation("reboot:yaml-roundtrip-raises:" + type(e).__name__, "writing/reading %r through the YAML interface raised %r" % (written, e))],
                      ["raised"], True)
    shutil.rmtree(tmp, ignore_errors=True)
    boot_t = t_end + case["reboot_after"]

    class LaterLoop(TimeTravelLoop):
        def __init__(self):
            super().__init__()
            self._time = float(boot_t)
    with Rig("null", loop_cls=LaterLoop, mock_data={"machine_vars": loaded}, patches={"machine_vars": CFG_VARS}) as rig2:
        mv2 = rig2.machine.variables
        for name, m_ in model.items():
            present = mv2.is_machine_var(name)
            expired = m_["expires"] is not None and m_["expires"] < boot_t - 1e-6
            at_edge = m_["expires"] is not None and abs(m_["expires"] - boot_t) < 0.5
            if m_["expires"] is not None:
                classes.add("expired" if expired else "not-yet-expired")
            if at_edge:
                continue
            if m_["value"] is None:
                continue        # None is also what an absent variable reads as
            if m_["persist"] and not expired:
                if not present:
                    vio.append(violation("reboot:persistent-var-lost", "persistent variable %s=%r (expires %r, reboot at %r) is gone after the "
                                         "reboot; file data %r" % (name, m_["value"], m_["expires"], boot_t, loaded.get(name))))
                elif not same(mv2.get_machine_var(name), m_["value"]):
                    vio.append(violation("reboot:value-changed:" + type(m_["value"]).__name__, "persistent variable %s was %r (%s) before the reboot and is "
                                         "%r (%s) after it" % (name, m_["value"], type(m_["value"]).__name__, mv2.get_machine_var(name),
                                                               type(mv2.get_machine_var(name)).__name__)))
            else:
                if present and mv2.get_machine_var(name) is not None:
                    why = "expired" if m_["persist"] else "not persistent"
                    vio.append(violation("reboot:%s-var-reloaded" % why.replace(" ", "-"), "variable %s (%s; expires %r, reboot at %r) came back with "
                                         "value %r" % (name, why, m_["expires"], boot_t, mv2.get_machine_var(name))))

    def special(v_):
        if isinstance(v_, (list, dict)):
            return True
        return isinstance(v_, str) and v_ in ("1", "true", "~", ": x", "null", "- a", "{a: b}", "", " ", "0x10", "1e3", "yes", "0o17", "2026-10-04")
    if any(special(x["value"]) for x in case["vars"]):
        classes.add("type-lookalike-or-nested")
    return Result(vio or None, sorted(classes) or ["plain"], bool(classes))


SUBCHECKS = [
    SubCheck("writer", lambda: case_writer, check_writer, quick=4000, thorough=80000, procs_quick=6),
    SubCheck("reboot", lambda: case_reboot, check_reboot, quick=800, thorough=15000, procs_quick=4),
]
