"""A second OPP chain for C14 (the repository's TestOPPFirmware2 only has a board that carries direct inputs and a switch
matrix at once): 0x20 = four input wings, 0x21 = lamps, lamps, matrix out, matrix in (no direct inputs at all),
0x22 = solenoids, inputs, matrix out, matrix in. Uses the repository's mock OPP serial port."""
import os
from unittest.mock import MagicMock

from mpf.platforms import opp
from mpf.tests.MpfTestCase import MpfTestCase
from mpf.tests.test_OPP import MockOppSocket, OPPCommon

MACHINE = os.path.join(os.path.dirname(os.path.dirname(os.path.abspath(__file__))), "machines", "opp14")


class TolerantOppSocket(MockOppSocket):
    """Commands the chain does not answer (configuration writes) are accepted silently."""

    def _handle_msg(self, msg):
        if msg in self.permanent_commands:
            self.queue.append(self.permanent_commands[msg])
            return len(msg)
        if msg in self.expected_commands:
            if self.expected_commands[msg] is not False:
                self.queue.append(self.expected_commands[msg])
            del self.expected_commands[msg]
        return len(msg)


class OppMatrixChain(OPPCommon, MpfTestCase):

    def get_config_file(self):
        return "config.yaml"

    def get_machine_path(self):
        return MACHINE

    def get_absolute_machine_path(self):
        return MACHINE

    def setUp(self):
        self.expected_duration = 1.5
        opp.serial_imported = True
        opp.serial = MagicMock()
        self.serialMock = TolerantOppSocket("com1")
        cfg = {0x20: b"\x02\x02\x02\x02", 0x21: b"\x03\x03\x04\x05", 0x22: b"\x01\x02\x04\x05"}
        self.serialMock.expected_commands = {b"\xf0": b"\xf0\x20\x21\x22"}
        self.serialMock.permanent_commands = {b"\xff": b"\xff"}
        for board, wings in cfg.items():
            b = bytes([board])
            self.serialMock.expected_commands[self._crc_message(b + b"\x0d\x00\x00\x00\x00")] = self._crc_message(b + b"\x0d" + wings)
            self.serialMock.expected_commands[self._crc_message(b + b"\x02\x00\x00\x00\x00")] = self._crc_message(b + b"\x02\x02\x00\x00\x00")
        for board in (0x20, 0x22):
            b = bytes([board])
            self.serialMock.permanent_commands[self._crc_message(b + b"\x08\x00\x00\x00\x00")] = self._crc_message(b + b"\x08\xff\xff\xff\xff")
        for board in (0x21, 0x22):
            b = bytes([board])
            self.serialMock.permanent_commands[self._crc_message(b + b"\x19" + b"\x00" * 8)] = self._crc_message(b + b"\x19" + b"\xff" * 8)
        super().setUp()

    def runTest(self):
        pass
