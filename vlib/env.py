"""Process bootstrap: make sure the code under test is /repo's working tree (or VERIF_REPO for
mutation self-tests), hash seed fixed, private TMPDIR (MPF pickles processed configs there)."""
import atexit
import os
import shutil
import sys
import tempfile

VERIF = os.path.dirname(os.path.dirname(os.path.abspath(__file__)))
REPO = os.path.abspath(os.environ.get("VERIF_REPO", "/repo"))
GUARD = "MPF_VERIF"
_PRIVATE_TMP = None


class HarnessError(Exception):
    """The machinery itself failed (exit 2, never a violation)."""


def seed():
    try:
        return int(os.environ.get("VERIF_SEED", "1"))
    except ValueError:
        return 1


def bootstrap():
    """Called first by every entry point."""
    global _PRIVATE_TMP
    if os.environ.get("PYTHONHASHSEED") != "0":
        os.environ["PYTHONHASHSEED"] = "0"
        os.execv(sys.executable, [sys.executable] + sys.argv)
    os.environ[GUARD] = "1"
    for p in (os.path.join(VERIF, ".deps"), VERIF, REPO):
        if p in sys.path:
            sys.path.remove(p)
        sys.path.insert(0, p)
    if _PRIVATE_TMP is None:
        _PRIVATE_TMP = tempfile.mkdtemp(prefix="mpfverif_")
        os.environ["TMPDIR"] = _PRIVATE_TMP
        tempfile.tempdir = _PRIVATE_TMP
        pid = os.getpid()

        def _cleanup():
            if os.getpid() == pid:
                shutil.rmtree(_PRIVATE_TMP, ignore_errors=True)
        atexit.register(_cleanup)
    import warnings
    warnings.filterwarnings("ignore")
    import faulthandler
    import signal
    faulthandler.register(signal.SIGUSR1, all_threads=True)
    import mpf
    where = os.path.abspath(mpf.__file__)
    if not where.startswith(REPO + os.sep):
        raise HarnessError("mpf imported from %s, expected under %s" % (where, REPO))
    import logging
    logging.disable(logging.CRITICAL)
    return REPO


def private_tmp():
    return _PRIVATE_TMP
