"""JitterLoop: the repo's TimeTravelLoop, except that every timer wake-up may be late.

The stock virtual loop fires every timer exactly on time, which hides relative re-scheduling drift.  Here the
harness supplies, per case, a list of lateness values (seconds); wake-up number n is late by jitter[n % len].
A scheduler that re-arms from absolute deadlines keeps every k-th firing inside [t_k, t_k + J]; one that re-arms
relative to 'now' walks away linearly.
"""


def make_jitter_loop(jitter):
    from mpf.tests.loop import TimeTravelLoop

    class JitterLoop(TimeTravelLoop):
        _jitter = list(jitter) or [0.0]
        _wake = 0

        def _run_once(self):
            if len(self._ready) == 0 and not self._timers.is_empty():
                when = self._timers.pop_closest()
                j = self._jitter[self._wake % len(self._jitter)]
                type(self)._wake = self._wake + 1
                self._time = max(self._time, when + j)
                # let the base class see an empty timer set so it does not advance time again
                from asyncio import base_events
                base_events.BaseEventLoop._run_once(self)
                return
            super()._run_once()

    JitterLoop._wake = 0
    return JitterLoop
