"""known_findings.json: read-only at run time.

{"known": [{"property": "C06", "subcheck": "grammar", "sig": "...", "text": "..."}],
 "fixed": ["fixed: property=C19 <commit> <what failed>", ...]}
Only "known" entries suppress anything, and only the exact (property, subcheck, sig) they name.
"""
import json
import os

from vlib import env

_cache = None


def _load():
    global _cache
    if _cache is None:
        p = os.path.join(env.VERIF, "known_findings.json")
        if os.path.exists(p):
            with open(p) as f:
                _cache = json.load(f)
        else:
            _cache = {"known": [], "fixed": []}
    return _cache


def is_known(pid, sub, sig):
    for e in _load()["known"]:
        if e["property"] == pid and e["subcheck"] == sub and e["sig"] == sig:
            return True
    return False


def known_for(pid):
    return [e for e in _load()["known"] if e["property"] == pid]
