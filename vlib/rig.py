"""Boot a real TestMachineController (virtual clock) from a harness-owned machine folder.

The rig re-uses the repo's own MpfTestCase / MpfFakeGameTestCase set-up code so the machine under test is
exactly the one the repository's tests use; only the loop's exception handler is replaced by a recorder
(exceptions are handed to the property's oracle instead of aborting) and, optionally, the loop class.
"""
import asyncio
import copy
import os
from asyncio import events

from vlib import env

MACHINES = os.path.join(env.VERIF, "machines")


class Livelock(Exception):
    pass


def _make_case_class(base, machine_path, config_file, patches, platform, mock_data, spec_patches):
    class _Case(base):
        def runTest(self):   # pragma: no cover
            pass

        def get_config_file(self):
            return config_file

        def get_absolute_machine_path(self):
            return machine_path

        def get_machine_path(self):
            return machine_path

        def get_platform(self):
            return platform

        def get_enable_plugins(self):
            return False

        def _get_mock_data(self):
            return copy.deepcopy(mock_data) if mock_data else {}

        def _exception_handler(self, loop, context):
            if getattr(self, "rig_booting", False):
                # during boot behave like the repo's test case: stop the loop so that setUp() raises
                try:
                    loop.stop()
                except RuntimeError:
                    pass
                if not self._exception:
                    self._exception = context
                return
            self.rig_exceptions.append(context)

    return _Case


class Rig:
    """with Rig("null", patches={...}) as rig:  rig.machine, rig.advance(secs), rig.exceptions"""

    def __init__(self, machine_dir="null", config_file="config.yaml", patches=None, base="plain", platform="virtual",
                 loop_cls=None, mock_data=None, early_init=None, spec_patches=None, mode_patches=None):
        from mpf.tests import MpfTestCase as mtc
        if base == "plain":
            basecls = mtc.MpfTestCase
        elif base == "fakegame":
            from mpf.tests.MpfFakeGameTestCase import MpfFakeGameTestCase
            basecls = MpfFakeGameTestCase
        elif base == "game":
            from mpf.tests.MpfGameTestCase import MpfGameTestCase
            basecls = MpfGameTestCase
        else:
            basecls = base
        path = machine_dir if os.path.isabs(machine_dir) else os.path.join(MACHINES, machine_dir)
        cls = _make_case_class(basecls, path, config_file, patches, platform, mock_data, spec_patches)
        self.case = cls("runTest")
        self.case.rig_exceptions = []
        if patches:
            from mpf.core.utility_functions import Util
            self.case.machine_config_patches = Util.dict_merge(self.case.machine_config_patches,
                                                               copy.deepcopy(patches))
        if spec_patches:
            self.case.machine_spec_patches = copy.deepcopy(spec_patches)
        if mode_patches:
            mp = copy.deepcopy(mode_patches)

            def _patch_modes(machine, _user=early_init):
                from mpf.core.utility_functions import Util
                for name, patch in mp.items():
                    cfg = machine.mpf_config.get_mode_config(name)
                    merged = Util.dict_merge(cfg, patch)
                    cfg.clear()
                    cfg.update(merged)
                if _user:
                    _user(machine)
            self.case._early_machine_init = _patch_modes
        elif early_init:
            self.case._early_machine_init = early_init
        self._loop_cls = loop_cls
        self._mtc = mtc
        self.machine = None
        self.loop = None
        self.startup_error = None

    # -- life cycle
    def start(self):
        orig = self._mtc.TimeTravelLoop
        if self._loop_cls is not None:
            self._mtc.TimeTravelLoop = self._loop_cls
        self.case.rig_booting = True
        import contextlib
        import io
        try:
            with contextlib.redirect_stdout(io.StringIO()):
                self.case.setUp()
            self.case.rig_booting = False
        except BaseException as e:   # pylint: disable=broad-except
            self.case.rig_booting = False
            self.startup_error = e
            try:
                self.stop()
            except BaseException:   # pylint: disable=broad-except
                pass
            raise
        finally:
            self._mtc.TimeTravelLoop = orig
        self.machine = self.case.machine
        self.loop = self.case.loop
        return self

    def stop(self):
        import contextlib
        import io
        with contextlib.redirect_stdout(io.StringIO()):    # MachineController._do_stop prints when tasks linger
            self._stop()

    @staticmethod
    def _drop_caches():
        """MPF memoises three *methods* with functools.lru_cache (ConfigValidator.build_spec,
        BasePlaceholderManager.parse_conditional_template, EventManager.get_event_and_condition_from_string); the caches
        keep every machine ever booted in this process alive. A harness that boots thousands of machines per process
        has to empty them or it runs out of memory (4 GB per worker in the thorough tier)."""
        import gc
        try:
            from mpf.core.config_validator import ConfigValidator
            from mpf.core.placeholder_manager import BasePlaceholderManager
            from mpf.core.events import EventManager
            for fn in (ConfigValidator.build_spec, BasePlaceholderManager.parse_conditional_template,
                       EventManager.get_event_and_condition_from_string):
                if hasattr(fn, "cache_clear"):
                    fn.cache_clear()
        except Exception:   # pylint: disable=broad-except
            pass
        # the DeviceMonitor decorator keeps a class-level dict keyed by device instance (attribute_futures) which is
        # never emptied: every device that ever changed a monitored attribute - and its machine - stays alive
        import sys
        nmod = len(sys.modules)
        if getattr(Rig, "_mon_nmod", None) != nmod:
            Rig._mon_nmod = nmod
            found = set()
            for name, mod in list(sys.modules.items()):
                if name.startswith("mpf.") and mod is not None:
                    for obj in list(vars(mod).values()):
                        if isinstance(obj, type) and isinstance(vars(obj).get("attribute_futures"), dict):
                            found.add(obj)
            Rig._mon_classes = found
        for cls in getattr(Rig, "_mon_classes", ()):
            cls.attribute_futures.clear()
        Rig._stops = getattr(Rig, "_stops", 0) + 1
        if Rig._stops % 25 == 0:
            gc.collect()

    def _stop(self):
        try:
            self._stop_inner()
        finally:
            self._drop_caches()

    def _stop_inner(self):
        case = self.case
        try:
            if case.machine is not None:
                try:
                    case.machine._do_stop()
                except BaseException:   # pylint: disable=broad-except
                    pass
            loop = getattr(case, "loop", None)
            if loop is not None and not loop.is_closed():
                try:
                    loop.close()
                except BaseException:   # pylint: disable=broad-except
                    try:
                        loop.close(ignore_running_tasks=True)
                    except BaseException:   # pylint: disable=broad-except
                        pass
        finally:
            case.machine = None
            self.machine = None
            try:
                case.restore_sys_path()
            except BaseException:   # pylint: disable=broad-except
                pass
            events.set_event_loop(None)

    def __enter__(self):
        return self.start()

    def __exit__(self, *exc):
        self.stop()
        return False

    # -- time
    @property
    def exceptions(self):
        return self.case.rig_exceptions

    @property
    def now(self):
        return self.loop.time()

    def advance(self, secs):
        """Run the machine for secs of virtual time (0 = run everything that is ready now)."""
        self.loop.run_until_complete(asyncio.sleep(secs))

    def run_ready(self):
        self.advance(0)

    def post(self, event, **kwargs):
        self.machine.events.post(event, **kwargs)
        self.run_ready()

    def exception_summaries(self):
        out = []
        for ctx in self.exceptions:
            e = ctx.get("exception")
            out.append("%s: %r" % (ctx.get("message"), e))
        return out
