"""Coverage-guided campaign for one sub-check: atheris (libFuzzer) drives the sub-check's Hypothesis strategy through
`fuzz_one_input`, so the bytes libFuzzer mutates are Hypothesis's choice sequence and the oracle is the sub-check's own
check(case). Runs in its own process:  python -m vlib.fuzzworker <module> <subcheck> <runs> <seed> <out.json>

The state file is rewritten every few hundred executions and on every violation (atexit handlers do not run under
libFuzzer). Violations do not stop the campaign: the smallest case per signature is kept and the search goes on.
Exit code 0 = campaign finished, 3 = the harness itself raised (reported as HARNESS-ERROR by the parent).
"""
import importlib
import json
import os
import sys
import time
import traceback


def main():
    modname, subname, runs, seed, outpath = sys.argv[1], sys.argv[2], int(sys.argv[3]), int(sys.argv[4]), sys.argv[5]
    sys.path.insert(0, os.path.dirname(os.path.dirname(os.path.abspath(__file__))))
    from vlib import env
    env.bootstrap()
    sys.path.append(os.path.join(env.VERIF, ".deps"))
    import atheris
    from vlib import findings
    from vlib.engine import to_jsonable, case_hash, _vlist, _size
    with atheris.instrument_imports(include=["mpf"]):
        # every mpf module imported from here on is instrumented (the property module pulls in most of them)
        mod0 = importlib.import_module(modname)
        sc = next(s for s in mod0.SUBCHECKS if s.name == subname)
        for m in (sc.fuzz or {}).get("modules", []):
            importlib.import_module(m)
    import hypothesis
    from hypothesis import HealthCheck, given, settings
    pid = mod0.PROPERTY
    state = {"evaluations": 0, "nontrivial": [], "known": {}, "violations": {}, "harness_error": None,
             "classes": {}, "t0": time.time()}
    nontrivial = set()

    def dump():
        state["nontrivial"] = sorted(nontrivial)[:200000]
        state["wall"] = time.time() - state["t0"]
        tmp = outpath + ".tmp"
        with open(tmp, "w") as f:
            json.dump(state, f)
        os.replace(tmp, outpath)

    @settings(database=None, deadline=None, suppress_health_check=list(HealthCheck), max_examples=10 ** 9)
    @given(sc.strategy())
    def test(case):
        try:
            res = sc.check(case)
        except Exception:   # pylint: disable=broad-except
            state["harness_error"] = {"case": to_jsonable(case), "traceback": traceback.format_exc()}
            dump()
            os._exit(3)
        state["evaluations"] += 1
        c = res.case if res.case is not None else case
        if res.nontrivial:
            nontrivial.add(case_hash(c))
        for cl in res.classes or []:
            if not str(cl).startswith("#cov:"):
                state["classes"][cl] = state["classes"].get(cl, 0) + 1
        changed = False
        for v in _vlist(res.violation):
            if findings.is_known(pid, subname, v["sig"]):
                state["known"][v["sig"]] = state["known"].get(v["sig"], 0) + 1
                continue
            old = state["violations"].get(v["sig"])
            if old is None or _size(c) < old["size"]:
                state["violations"][v["sig"]] = {"case": to_jsonable(c), "violation": to_jsonable(v), "size": _size(c)}
                changed = True
        if changed or state["evaluations"] % 100 == 0 or time.time() - state.get("last_dump", 0) > 2:
            state["last_dump"] = time.time()
            dump()

    dump()
    corpus = outpath + ".corpus"
    os.makedirs(corpus, exist_ok=True)
    # Hypothesis rejects buffers that are too short for the strategy; start from a few pseudo-random buffers of useful
    # sizes (a pure function of the seed) so that libFuzzer has valid inputs to mutate from the first execution on
    import random
    rnd = random.Random(seed)
    for i, size in enumerate((64, 256, 1024, 4096, 4096, 8192)):
        with open(os.path.join(corpus, "seed%d" % i), "wb") as f:
            f.write(bytes(rnd.getrandbits(8) for _ in range(size)))
    argv = [sys.argv[0], "-runs=%d" % runs, "-seed=%d" % (seed or 1), "-max_len=16384", "-len_control=0", "-print_final_stats=1",
            "-verbosity=1", "-close_fd_mask=0", corpus]
    atheris.Setup(argv, test.hypothesis.fuzz_one_input)
    atheris.Fuzz()


if __name__ == "__main__":
    main()
