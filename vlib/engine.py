"""Hypothesis driver shared by all properties.

A property module exposes PROPERTY (id), LEVEL, RULE (text of the non-triviality rule), ASSUMPTIONS and
SUBCHECKS, a list of SubCheck.  A sub-check is: a Hypothesis strategy producing a JSON-able *case*, and
check(case) -> Result.  check() must be a pure function of (case, code under test); replay calls
exactly the same function without Hypothesis in the loop.
"""
import hashlib
import json
import math
import multiprocessing
import os
import re
import signal
import sys
import time
import traceback
from collections import Counter

from vlib import env, findings

CASE_WALL_LIMIT_S = 60     # a single case running this long is a hang of the harness/program: harness error, exit 2


class CaseTimeout(KeyboardInterrupt):
    """Derived from KeyboardInterrupt so that asyncio's callback runner (which swallows every other exception raised
    inside a loop callback) lets it through."""


def _on_alarm(signum, frame):
    raise CaseTimeout("a single case exceeded %d s of wall time (hang); reported as a harness error, not a violation"
                      % CASE_WALL_LIMIT_S)


MAX_SAMPLES_PER_CLASS = 2
MAX_SAMPLES = 10


# ------------------------------------------------------------------------------------------------
# JSON encoding of cases (bytes, tuples, non-finite floats, sets survive a round trip)
def to_jsonable(o):
    if isinstance(o, bool) or o is None or isinstance(o, (int, str)):
        return o
    if isinstance(o, float):
        if math.isnan(o) or math.isinf(o):
            return {"__float__": repr(o)}
        return o
    if isinstance(o, bytes):
        return {"__bytes__": o.hex()}
    if isinstance(o, tuple):
        return {"__tuple__": [to_jsonable(x) for x in o]}
    if isinstance(o, (set, frozenset)):
        return {"__set__": sorted((to_jsonable(x) for x in o), key=repr)}
    if isinstance(o, list):
        return [to_jsonable(x) for x in o]
    if isinstance(o, dict):
        if all(isinstance(k, str) for k in o) and not any(k.startswith("__") and k.endswith("__") for k in o):
            return {k: to_jsonable(v) for k, v in o.items()}
        return {"__dict__": [[to_jsonable(k), to_jsonable(v)] for k, v in o.items()]}
    return {"__repr__": repr(o)}


def from_jsonable(o):
    if isinstance(o, list):
        return [from_jsonable(x) for x in o]
    if isinstance(o, dict):
        if len(o) == 1:
            (k, v), = o.items()
            if k == "__float__":
                return float(v)
            if k == "__bytes__":
                return bytes.fromhex(v)
            if k == "__tuple__":
                return tuple(from_jsonable(x) for x in v)
            if k == "__set__":
                return set(from_jsonable(x) for x in v)
            if k == "__dict__":
                return {from_jsonable(a): from_jsonable(b) for a, b in v}
            if k == "__repr__":
                return v
        return {k: from_jsonable(v) for k, v in o.items()}
    return o


def case_hash(case):
    return hashlib.blake2b(json.dumps(to_jsonable(case), sort_keys=True).encode(), digest_size=8).hexdigest()


# ------------------------------------------------------------------------------------------------
class Result:
    """Outcome of one case.  violation: None or dict(sig=<stable signature>, msg=<text>, ...)."""

    __slots__ = ("violation", "classes", "nontrivial", "case", "excluded")

    def __init__(self, violation=None, classes=(), nontrivial=False, case=None, excluded=None):
        self.violation = violation
        self.classes = list(classes)
        self.nontrivial = nontrivial
        self.case = case            # recorded case when generation was interactive
        self.excluded = excluded    # reason string when the case was outside the domain (counted)


def violation(sig, msg, **detail):
    d = {"sig": sig, "msg": msg}
    d.update(detail)
    return d


MAX_CASES_PER_PROCESS = 1500


class SubCheck:
    def __init__(self, name, strategy, check, quick, thorough, procs_quick=4, stateful=False, max_shrink_s=60,
                 fuzz=None):
        self.name = name
        # optional coverage-guided campaign (atheris) on top of the random search:
        # {"quick": runs, "thorough": runs, "modules": [mpf modules to instrument]}
        self.fuzz = fuzz
        self.strategy = strategy      # zero-arg callable returning a hypothesis strategy
        self.check = check            # check(case) -> Result
        self.quick = quick
        self.thorough = thorough
        self.procs_quick = procs_quick
        self.max_shrink_s = max_shrink_s


# ------------------------------------------------------------------------------------------------
class _Stats:
    def __init__(self):
        self.evaluations = 0
        self.nontrivial = set()
        self.classes = Counter()
        self.samples = {}
        self.known = Counter()
        self.excluded = Counter()
        self.best_fail = None
        self.harness_error = None
        self.first_fail_t = None
        self.cov = set()

    def record(self, case, res):
        cov = [c for c in res.classes if c.startswith("#cov:")]
        if cov:
            self.cov.update(cov)
            res.classes = [c for c in res.classes if not c.startswith("#cov:")]
        self.evaluations += 1
        h = None
        if res.nontrivial:
            h = case_hash(case)
            self.nontrivial.add(h)
        for c in res.classes:
            self.classes[c] += 1
            lst = self.samples.setdefault(c, [])
            if len(lst) < MAX_SAMPLES_PER_CLASS and len(self.samples) <= 40:
                lst.append(to_jsonable(case))
        if not res.classes:
            lst = self.samples.setdefault("_", [])
            if len(lst) < MAX_SAMPLES_PER_CLASS:
                lst.append(to_jsonable(case))
        if res.excluded:
            self.excluded[res.excluded] += 1


def _vlist(v):
    """A check may report one violation (dict) or several (list); known ones are skipped one by one."""
    if v is None:
        return []
    return v if isinstance(v, list) else [v]


def _size(case):
    return len(json.dumps(to_jsonable(case)))


def _shard(args):
    """Worker: run one shard of one sub-check under Hypothesis.  Returns a picklable dict."""
    modname, subname, n, hseed, do_shrink = args
    t0 = time.time()
    out = {"sub": subname, "evaluations": 0, "nontrivial": set(), "classes": Counter(), "samples": {},
           "known": Counter(), "excluded": Counter(), "violation": None, "harness_error": None, "wall": 0.0,
           "cov": set()}
    try:
        import importlib
        signal.signal(signal.SIGALRM, _on_alarm)
        mod = importlib.import_module(modname)
        sc = next(s for s in mod.SUBCHECKS if s.name == subname)
        import hypothesis
        from hypothesis import HealthCheck, Phase, given, settings
        stats = _Stats()
        pid = mod.PROPERTY

        class _Violation(Exception):
            pass

        def body(drawn):
            if stats.harness_error is not None:
                return
            if stats.first_fail_t is not None and time.time() - stats.first_fail_t > sc.max_shrink_s:
                return  # shrink budget used: let the shrinker converge quickly
            try:
                signal.setitimer(signal.ITIMER_REAL, CASE_WALL_LIMIT_S, 5)     # fires again every 5 s: clean-up code that
                # runs the loop again after the first interrupt (Rig.stop) is interrupted too
                try:
                    res = sc.check(drawn)
                finally:
                    signal.setitimer(signal.ITIMER_REAL, 0)
            except (Exception, CaseTimeout):   # pylint: disable=broad-except
                stats.harness_error = {"case": to_jsonable(drawn), "traceback": traceback.format_exc()}
                raise
            case = res.case if res.case is not None else drawn
            stats.record(case, res)
            for v in _vlist(res.violation):
                if findings.is_known(pid, subname, v["sig"]):
                    stats.known[v["sig"]] += 1
                    continue
                if stats.first_fail_t is None:
                    stats.first_fail_t = time.time()
                if stats.best_fail is None or _size(case) <= _size(stats.best_fail[0]):
                    stats.best_fail = (case, v)
                raise _Violation(v["msg"])

        phases = [Phase.generate, Phase.shrink] if do_shrink else [Phase.generate]
        test = hypothesis.seed(hseed)(settings(
            max_examples=n, database=None, deadline=None, report_multiple_bugs=False, print_blob=False,
            derandomize=False, phases=phases, verbosity=hypothesis.Verbosity.quiet,
            suppress_health_check=[HealthCheck.too_slow, HealthCheck.data_too_large,
                                   HealthCheck.large_base_example])(given(sc.strategy())(body)))
        try:
            test()
        except _Violation:
            pass
        except BaseException as e:   # pylint: disable=broad-except
            if stats.best_fail is None and stats.harness_error is None:
                stats.harness_error = {"case": None, "traceback": traceback.format_exc()}
            del e
        out.update(evaluations=stats.evaluations, nontrivial=stats.nontrivial, classes=stats.classes,
                   samples=stats.samples, known=stats.known, excluded=stats.excluded,
                   harness_error=stats.harness_error, cov=stats.cov)
        if stats.best_fail is not None:
            out["violation"] = {"case": to_jsonable(stats.best_fail[0]), "violation": to_jsonable(stats.best_fail[1])}
    except BaseException:   # pylint: disable=broad-except
        out["harness_error"] = {"case": None, "traceback": traceback.format_exc()}
    out["wall"] = time.time() - t0
    return out


def _shard_entry(args, conn):
    try:
        import resource
        # a runaway case must fail inside its own process (MemoryError -> harness error), not take the machine down
        resource.setrlimit(resource.RLIMIT_AS, (8 << 30, 8 << 30))
    except Exception:   # pylint: disable=broad-except
        pass
    try:
        conn.send(_shard(args))
    finally:
        conn.close()


def _run_tasks(tasks, nproc):
    """One fresh process per task, at most nproc at a time. Unlike multiprocessing.Pool this survives the death of a
    worker (e.g. the kernel's OOM killer): the lost shard is reported as a harness error instead of hanging the run."""
    from multiprocessing.connection import wait
    ctx = multiprocessing.get_context("fork")
    pending = list(tasks)
    running = {}
    while pending or running:
        while pending and len(running) < nproc:
            t = pending.pop(0)
            rc, wc = ctx.Pipe(duplex=False)
            p = ctx.Process(target=_shard_entry, args=(t, wc))
            p.start()
            wc.close()
            running[rc] = (p, t)
        ready = wait(list(running.keys()), timeout=1.0)
        for rc in ready:
            p, t = running.pop(rc)
            try:
                out = rc.recv()
            except (EOFError, OSError):
                out = None
            rc.close()
            p.join(10)
            if out is None:
                out = {"sub": t[1], "evaluations": 0, "nontrivial": set(), "classes": Counter(), "samples": {},
                       "known": Counter(), "excluded": Counter(), "violation": None, "wall": 0.0, "cov": set(),
                       "harness_error": {"case": None, "traceback": "worker process for shard %r died without a result "
                                         "(exit code %r; a negative code is a signal, -9 usually the OOM killer)" %
                                         (t[1:4], p.exitcode)}}
            yield out


def _replay_corpus(mod, sc):
    """Saved regression cases of this sub-check: run them first, without Hypothesis."""
    d = os.path.join(env.VERIF, "corpus", mod.PROPERTY, sc.name)
    res = []
    if not os.path.isdir(d):
        return res
    for fn in sorted(os.listdir(d)):
        if not fn.endswith(".json"):
            continue
        with open(os.path.join(d, fn)) as f:
            doc = json.load(f)
        case = from_jsonable(doc["case"])
        res.append((fn, case, sc.check(case)))
    return res


def run_property(mod, tier, only=None, scale=1.0):
    """Run all sub-checks of a property module; write evidence; print verdict lines; return exit code."""
    t0 = time.time()
    pid = mod.PROPERTY
    seed = env.seed()
    thorough = tier == "thorough"
    subs = [s for s in mod.SUBCHECKS if only is None or s.name in only]
    tasks = []
    corpus_viol = []
    corpus_runs = 0
    agg = {s.name: {"evaluations": 0, "nontrivial": set(), "classes": Counter(), "samples": {}, "known": Counter(),
                    "excluded": Counter(), "wall": 0.0, "cov": set()} for s in subs}
    harness_errors = []
    violations = []
    for sc in subs:
        try:
            for fn, case, res in _replay_corpus(mod, sc):
                corpus_runs += 1
                a = agg[sc.name]
                a["evaluations"] += 1
                if res.nontrivial:
                    a["nontrivial"].add(case_hash(case))
                for v in _vlist(res.violation):
                    if findings.is_known(pid, sc.name, v["sig"]):
                        a["known"][v["sig"]] += 1
                    else:
                        violations.append((sc.name, {"case": to_jsonable(case), "violation": to_jsonable(v),
                                                    "corpus_file": fn}))
                        break
        except Exception:   # pylint: disable=broad-except
            harness_errors.append((sc.name, {"case": None, "traceback": traceback.format_exc()}))
        total = int((sc.thorough if thorough else sc.quick) * scale)
        procs = 16 if thorough else sc.procs_quick
        procs = max(1, min(procs, total // 20 or 1))
        per = max(1, total // procs)
        if per > MAX_CASES_PER_PROCESS:
            # long-lived workers accumulate memory (MPF keeps per-machine state in class-level structures):
            # more, shorter shards, each in a fresh process
            procs = -(-total // MAX_CASES_PER_PROCESS)
            per = max(1, total // procs)
        for i in range(procs):
            tasks.append((mod.__name__, sc.name, per, seed * 100003 + i * 7919 + (zlib_crc(sc.name) % 1000), True))
    nproc = min(16, len(tasks)) or 1
    if True:
        for out in _run_tasks(tasks, nproc):
            a = agg[out["sub"]]
            a["evaluations"] += out["evaluations"]
            a["nontrivial"] |= out["nontrivial"]
            a["classes"].update(out["classes"])
            a["known"].update(out["known"])
            a["excluded"].update(out["excluded"])
            a["wall"] += out["wall"]
            a["cov"] |= out.get("cov", set())
            for c, lst in out["samples"].items():
                cur = a["samples"].setdefault(c, [])
                for s in lst:
                    if len(cur) < MAX_SAMPLES_PER_CLASS:
                        cur.append(s)
            if out["harness_error"] is not None and out["violation"] is None:
                harness_errors.append((out["sub"], out["harness_error"]))
            if out["violation"] is not None:
                violations.append((out["sub"], out["violation"]))

    # ---- coverage-guided campaigns (atheris) for the sub-checks that ask for one
    fuzz_info = {}
    for sc in subs:
        if sc.fuzz:
            fuzz_info[sc.name] = _fuzz_campaign(mod, sc, tier, seed, scale, agg[sc.name], violations, harness_errors)

    # ---- verdict
    rc = 0
    replay_dir = os.path.join(env.VERIF, "replays")
    seen_sigs = set()
    nviol = 0
    for sub, v in violations:
        sig = v["violation"]["sig"]
        if (sub, sig) in seen_sigs:
            continue
        seen_sigs.add((sub, sig))
        nviol += 1
        os.makedirs(replay_dir, exist_ok=True)
        path = os.path.join(replay_dir, "%s_%s_%s.json" % (pid, sub, hashlib.blake2b(
            json.dumps(v["case"], sort_keys=True).encode(), digest_size=5).hexdigest()))
        with open(path, "w") as f:
            json.dump({"property": pid, "subcheck": sub, "seed": seed, "tier": tier, "case": v["case"],
                       "violation": v["violation"]}, f, indent=1, sort_keys=True)
        print("VIOLATION property=%s replay=%s" % (pid, path))
        print("  subcheck=%s sig=%s :: %s" % (sub, sig, str(v["violation"].get("msg"))[:600]))
        rc = 1
    for ent in findings.known_for(pid):
        hits = sum(agg[s]["known"].get(ent["sig"], 0) for s in agg if s == ent["subcheck"])
        print("KNOWN-FINDING: property=%s %s [subcheck=%s sig=%s hits_this_run=%d]" % (
            pid, ent["text"], ent["subcheck"], ent["sig"], hits))
    if harness_errors and rc == 0:
        rc = 2
    for sub, he in harness_errors[:3]:
        print("HARNESS-ERROR property=%s subcheck=%s" % (pid, sub))
        print(he["traceback"])
        if he.get("case") is not None:
            print("  case=%s" % json.dumps(he["case"])[:2000])

    # ---- evidence
    evaluations = sum(a["evaluations"] for a in agg.values())
    # distinct non-trivial cases are counted per sub-check (hashes of different sub-checks never alias in meaning)
    distinct = sum(len(a["nontrivial"]) for a in agg.values())
    samples = []
    for name, a in agg.items():
        for c, lst in sorted(a["samples"].items()):
            for s in lst[:1]:
                if len(samples) < MAX_SAMPLES:
                    samples.append({"subcheck": name, "class": c, "case": s})
    for name, a in agg.items():   # make sure every sub-check shows at least one sample
        if a["samples"] and not any(s["subcheck"] == name for s in samples):
            c, lst = sorted(a["samples"].items())[0]
            samples.append({"subcheck": name, "class": c, "case": lst[0]})
    ev = {
        "property_id": pid, "tier": tier, "seed": seed, "level": mod.LEVEL,
        "coverage": {
            "evaluations": evaluations,
            "distinct_nontrivial": distinct,
            "rule": mod.RULE,
            "samples": samples,
            "subchecks": {name: {"evaluations": a["evaluations"], "distinct_nontrivial": len(a["nontrivial"]),
                                 "classes": dict(a["classes"].most_common()),
                                 "excluded": dict(a["excluded"]), "known_finding_hits": dict(a["known"]),
                                 "distinct_coverage_items": len(a["cov"]),
                                 "cpu_s": round(a["wall"], 1)} for name, a in agg.items()},
            "regression_corpus_cases": corpus_runs,
            "exhaustive": False,
        },
        "assumptions": list(mod.ASSUMPTIONS),
        "wall_s": round(time.time() - t0, 2),
        "violations": nviol,
        "harness_errors": len(harness_errors),
        "repo": env.REPO,
    }
    if fuzz_info:
        ev["coverage"]["coverage_guided"] = fuzz_info
    extra = getattr(mod, "extra_evidence", None)
    if extra:
        ev["coverage"].update(extra())
    evdir = os.path.join(env.VERIF, "evidence") if env.REPO == "/repo" else os.path.join(env.VERIF, "replays", "mutant_evidence")
    os.makedirs(evdir, exist_ok=True)   # runs against a scratch tree (VERIF_REPO) never overwrite real evidence
    evpath = os.path.join(evdir, "%s.json" % pid)
    with open(evpath, "w") as f:
        json.dump(ev, f, indent=1, sort_keys=True)
    print("%s %s seed=%d: %d cases (%d distinct non-trivial) in %.1fs, violations=%d known_hits=%d rc=%d" % (
        pid, tier, seed, evaluations, distinct, time.time() - t0, nviol,
        sum(sum(a["known"].values()) for a in agg.values()), rc))
    for name, a in agg.items():
        print("  %-14s n=%-7d nontrivial=%-7d %s" % (name, a["evaluations"], len(a["nontrivial"]),
                                                   dict(a["classes"].most_common(8))))
    return rc


def _fuzz_campaign(mod, sc, tier, seed, scale, a, violations, harness_errors):
    """Runs atheris workers (vlib/fuzzworker.py) for one sub-check and merges what they found."""
    import shutil
    import subprocess
    import tempfile
    info = {"engine": "atheris (libFuzzer) driving the sub-check's Hypothesis strategy via fuzz_one_input",
            "instrumented": sc.fuzz.get("modules", [])}
    if not os.path.isdir(os.path.join(env.VERIF, ".deps", "atheris")):
        info["skipped"] = "atheris is not installed under .deps (MANIFEST.setup_cmd installs it)"
        return info
    runs = int(sc.fuzz.get(tier, 0) * scale)
    if runs <= 0:
        info["skipped"] = "no coverage-guided budget in this tier"
        return info
    procs = 8 if tier == "thorough" else 2
    per = max(1, runs // procs)
    work = tempfile.mkdtemp(prefix="fuzz_%s_%s_" % (mod.PROPERTY, sc.name))
    ps = []
    for i in range(procs):
        out = os.path.join(work, "w%d.json" % i)
        cmd = [sys.executable, "-m", "vlib.fuzzworker", mod.__name__, sc.name, str(per), str(seed * 1000 + i + 1), out]
        ps.append((out, subprocess.Popen(cmd, cwd=env.VERIF, stdout=subprocess.DEVNULL, stderr=subprocess.PIPE,
                                         text=True)))
    execs = cov = ft = reached = 0
    t0 = time.time()
    for out, p in ps:
        try:
            _, err = p.communicate(timeout=4 * 3600)
        except subprocess.TimeoutExpired:
            p.kill()
            _, err = p.communicate()
        m = re.findall(r"stat::number_of_executed_units:\s*(\d+)", err or "")
        c = re.findall(r"cov: (\d+) ft: (\d+)", err or "")
        st = None
        if os.path.exists(out):
            with open(out) as f:
                st = json.load(f)
        n = int(m[-1]) if m else (st or {}).get("evaluations", 0)
        execs += n
        if c:
            cov, ft = max(cov, int(c[-1][0])), max(ft, int(c[-1][1]))
        if st is None:
            harness_errors.append((sc.name, {"case": None, "traceback": "fuzz worker wrote no state; stderr tail:\n" +
                                             (err or "")[-1500:]}))
            continue
        a["evaluations"] += st["evaluations"]
        reached += st["evaluations"]
        a["nontrivial"] |= set(st["nontrivial"])
        a["known"].update(st["known"])
        if st.get("harness_error"):
            harness_errors.append((sc.name, st["harness_error"]))
        elif p.returncode not in (0,):
            harness_errors.append((sc.name, {"case": None, "traceback": "fuzz worker exit %s; stderr tail:\n%s" %
                                             (p.returncode, (err or "")[-1500:])}))
        for sig, v in st["violations"].items():
            violations.append((sc.name, {"case": v["case"], "violation": v["violation"]}))
    shutil.rmtree(work, ignore_errors=True)
    if execs >= 500 and reached == 0:
        harness_errors.append((sc.name, {"case": None, "traceback": "the coverage-guided phase ran %d executions and none "
                               "reached the oracle: Hypothesis rejects every buffer for this strategy (fixed_dictionaries "
                               "with >= 4 keys cannot be driven by fuzz_one_input - use a mapped tuple)" % execs}))
    info.update({"workers": procs, "executions": execs, "executions_that_reached_the_oracle_at_least": reached,
                 "edges_covered": cov, "features": ft,
                 "wall_s": round(time.time() - t0, 1)})
    return info


def zlib_crc(s):
    import zlib
    return zlib.crc32(s.encode())


def replay(mod, path):
    with open(path) as f:
        doc = json.load(f)
    sub = doc["subcheck"]
    sc = next(s for s in mod.SUBCHECKS if s.name == sub)
    case = from_jsonable(doc["case"])
    res = sc.check(case)
    rc = 0
    for v in _vlist(res.violation):
        if findings.is_known(mod.PROPERTY, sub, v["sig"]):
            print("KNOWN-FINDING: property=%s subcheck=%s sig=%s :: %s" % (mod.PROPERTY, sub, v["sig"], v.get("msg")))
            continue
        print("VIOLATION property=%s replay=%s" % (mod.PROPERTY, path))
        print("  subcheck=%s sig=%s :: %s" % (sub, v["sig"], v.get("msg")))
        print(json.dumps(to_jsonable(v), indent=1)[:6000])
        rc = 1
    if rc:
        return rc
    print("OK property=%s replay=%s (no violation on this tree)" % (mod.PROPERTY, path))
    return 0
