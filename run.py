#!/venv/bin/python
"""Single entry point:  run.py <Cnn> [--tier quick|thorough] [--replay file] [--only sub,sub] [--scale f]

exit 0: property held on everything explored; 1: VIOLATION line printed; 2: harness error."""
import argparse
import glob
import importlib
import os
import sys
import traceback

sys.path.insert(0, os.path.dirname(os.path.abspath(__file__)))
from vlib import env  # noqa: E402


def main():
    ap = argparse.ArgumentParser()
    ap.add_argument("prop")
    ap.add_argument("--tier", default=os.environ.get("VERIF_TIER", "quick"), choices=["quick", "thorough"])
    ap.add_argument("--replay")
    ap.add_argument("--only")
    ap.add_argument("--scale", type=float, default=1.0)
    a = ap.parse_args()
    try:
        env.bootstrap()
        from vlib import engine
        pid = a.prop.upper()
        cands = glob.glob(os.path.join(env.VERIF, "props", pid.lower() + "_*.py"))
        if len(cands) != 1:
            raise env.HarnessError("no module for %s" % pid)
        mod = importlib.import_module("props." + os.path.basename(cands[0])[:-3])
        if a.replay:
            return engine.replay(mod, a.replay)
        return engine.run_property(mod, a.tier, only=a.only.split(",") if a.only else None, scale=a.scale)
    except SystemExit:
        raise
    except BaseException:   # pylint: disable=broad-except
        print("HARNESS-ERROR property=%s" % a.prop)
        traceback.print_exc()
        return 2


if __name__ == "__main__":
    sys.exit(main())
